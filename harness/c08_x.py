"""C08 correspondence: exhaustive fault injection against the real Splink, tied to the Coq
trace model.

For a configuration (seeded data + model, backend) and an operation:
  * observing run: the operation runs on a fresh linker under a line tracer restricted to
    the functions the translator inlined, with the API wrapper reporting every executed SQL
    statement.  This yields N (statements), for each statement the model's (site, occurrence),
    and the decision oracle (which ifs were taken, how often each loop ran);
  * fault runs: for k = 1..N a fresh identical linker, the wrapper raises at statement k;
    afterwards the visible state is diffed against the pre-call snapshot (property oracle)
    and `run_case` (Model/Atomic.v) is evaluated inside Coq on the operation's regenerated
    trace with the oracle and the fault, and must predict failure at that site and the same
    per-field changed/unchanged pattern;
  * later results: predict(), one more inference operation and a cache-sensitive sequence
    (compute_tf_table or register_term_frequency_lookup, then predict() again) on the failed
    linker vs a reference linker that never made the failed call.
User-level failures (no pairs, both m and u fixed, inconsistent recall, records lacking
columns, bad label column ...) are single observed runs that raise by themselves.
"""
from __future__ import annotations

import json
import math
import os
import sys
import tempfile
import time

import pandas as pd

from harness import splink_util as su
from harness.common import Ctx, REPO, coq_bool, coq_list, coq_nat, coq_Z
from translators import c08_effects as T

FIELDS = T.FIELDS
LOOSE = {"FPrior", "FLevelMU", "FLevelTrained", "FLevelOther", "FCoreModel", "FSessions", "FOther", "FCache"}
LEAK_NAME = {"FBlockingRules": "blocking_rules", "FRetainMatching": "retain_flags", "FRetainIntermediate": "retain_flags",
             "FComparisons": "core_model_settings", "FPrior": "core_model_settings", "FCoreModel": "core_model_settings",
             "FLevelMU": "core_model_settings", "FLevelTrained": "trained_values", "FLevelOther": "core_model_settings",
             "FLinkType": "link_type", "FSessions": "training_sessions", "FOther": "other_settings",
             "FCache": "registered_cache_entries"}


class InjectedFault(RuntimeError):
    pass


class SetupFailed(RuntimeError):
    pass


# ------------------------------------------------------------------------------------------
# API wrappers: count / observe / fail wherever SQL is executed.  DuckDB: the API's
# _execute_sql_against_backend.  SQLite: every cursor of the connection (the API method, the
# dataframe's direct cursor use in as_record_dict / drop, pandas' to_sql / read_sql).
def _hook(api, sql):
    if not getattr(api, "_c08_armed", False):
        return
    api._c08_n += 1
    if api._c08_obs is not None:
        api._c08_obs.on_sql(api._c08_n, str(sql))
    if api._c08_fail_at is not None and api._c08_n == api._c08_fail_at:
        api._c08_fail_at = None
        raise InjectedFault(f"injected backend failure at statement {api._c08_n}")


def _init_hook(api):
    api._c08_n = 0
    api._c08_fail_at = None
    api._c08_obs = None
    api._c08_armed = False


_API = {}


def api_class(backend):
    if backend in _API:
        return _API[backend]
    if backend == "duckdb":
        from splink import DuckDBAPI

        class FaultDuckDBAPI(DuckDBAPI):
            def __init__(self, *a, **k):
                _init_hook(self)
                super().__init__(*a, **k)

            def _execute_sql_against_backend(self, final_sql):
                _hook(self, final_sql)
                return super()._execute_sql_against_backend(final_sql)
        _API[backend] = FaultDuckDBAPI
    else:
        import sqlite3
        from splink.internals.sqlite.database_api import SQLiteAPI

        class HookCursor(sqlite3.Cursor):
            def execute(self, sql, *a):
                _hook(getattr(self.connection, "_c08_api", None), sql)
                return super().execute(sql, *a)

            def executemany(self, sql, *a):
                _hook(getattr(self.connection, "_c08_api", None), sql)
                return super().executemany(sql, *a)

            def executescript(self, sql):
                _hook(getattr(self.connection, "_c08_api", None), sql)
                return super().executescript(sql)

        class HookConnection(sqlite3.Connection):
            def cursor(self, factory=None):
                return super().cursor(factory or HookCursor)

        class FaultSQLiteAPI(SQLiteAPI):
            def __init__(self, *a, **k):
                _init_hook(self)
                con = sqlite3.connect(":memory:", factory=HookConnection)
                con._c08_api = self
                super().__init__(con)

            def _execute_sql_against_backend(self, final_sql):
                _hook(self, final_sql)
                armed, self._c08_armed = self._c08_armed, False     # Connection.execute may or may not go through cursor()
                try:
                    return super()._execute_sql_against_backend(final_sql)
                finally:
                    self._c08_armed = armed
        _API[backend] = FaultSQLiteAPI
    return _API[backend]


def new_api(backend):
    su.quiet()
    return api_class(backend)()


# ------------------------------------------------------------------------------------------
# observer: line trace of the inlined functions + statement attribution
class Observer:
    def __init__(self, trace: T.Trace, ix: T.Index):
        self.tr = trace
        self.ix = ix
        self.repo = str(ix.repo.resolve())
        self.code_fkey: dict = {}
        self.spans: dict = {}
        for key in trace.funcs:
            fk = ix.fkey(key)
            self.spans[fk] = sorted(T.stmt_spans(ix.defs[key]), key=lambda s: (s[1] - s[0], s[0]))
        self.fkeys = set(self.spans)
        self.recs: dict = {}
        self.visits: dict = {}
        self.decisions: list = []
        self.sql_log: list = []
        self.unmapped: list = []
        self.errors: list = []

    # -- helpers
    def fkey_of(self, code):
        r = self.code_fkey.get(code, 0)
        if r != 0:
            return r
        fn = code.co_filename
        fk = None
        if fn.startswith(self.repo):
            cand = os.path.relpath(fn, self.repo) + "::" + code.co_qualname
            if cand in self.fkeys:
                fk = cand
        self.code_fkey[code] = fk
        return fk

    def norm(self, fk, line):
        for a, b, n in self.spans[fk]:
            if a <= line <= b:
                return n
        return line

    def stack_chain(self, frame):
        """CODESET frames outermost -> innermost as [(fkey, stmt line)]"""
        out = []
        f = frame
        while f is not None:
            fk = self.fkey_of(f.f_code)
            if fk is not None:
                out.append((fk, self.norm(fk, f.f_lineno)))
            f = f.f_back
        out.reverse()
        return out

    def locate(self, frames):
        """longest valid prefix of [(fkey, line)] -> (chain, fkey, line) or None"""
        best = None
        for i in range(len(frames)):
            chain = tuple(frames[:i])
            if (chain, frames[i][0]) in self.tr.frames:
                best = (chain, frames[i][0], frames[i][1])
            else:
                break
        return best

    # -- tracing
    def start(self):
        sys.settrace(self._global)

    def stop(self):
        sys.settrace(None)

    def _global(self, frame, event, arg):
        if event != "call":
            return None
        fk = self.fkey_of(frame.f_code)
        if fk is None:
            return None
        frames = self.stack_chain(frame.f_back)
        chain = tuple(frames)
        valid = (chain, fk) in self.tr.frames
        self.recs[id(frame)] = {"frame": frame, "chain": chain, "fk": fk, "valid": valid, "last": None,
                                "pending": None, "exc": False}
        return self._local

    def _resolve(self, rec, stmt):
        p = rec["pending"]
        if p is None:
            return
        rec["pending"] = None
        nid, kind, body_first, sql_from, _key = p
        if kind == "comp":
            callees = []
            for e in self.sql_log[sql_from:]:
                if e["key"] == p[4] and e["callee"] not in callees:
                    callees.append(e["callee"])
            for e in self.sql_log[sql_from:]:
                if e["key"] == p[4]:
                    e["occ"] = e["occ_base"] + callees.index(e["callee"])
            self.decisions += [(nid, True)] * len(callees) + [(nid, False)]
            return
        if stmt is None:
            self.decisions.append((nid, False))
        else:
            self.decisions.append((nid, stmt == body_first))

    def _local(self, frame, event, arg):
        try:
            return self._local_inner(frame, event, arg)
        except Exception as e:      # noqa: BLE001  - a tracer bug must not look like a failing operation
            import traceback
            self.errors.append(traceback.format_exc())
            sys.settrace(None)
            return None

    def _local_inner(self, frame, event, arg):
        rec = self.recs.get(id(frame))
        if rec is None:
            return self._local
        if event == "line":
            rec["exc"] = False
            if not rec["valid"]:
                return self._local
            stmt = self.norm(rec["fk"], frame.f_lineno)
            if stmt != rec["last"]:
                rec["last"] = stmt
                key = (rec["chain"], rec["fk"], stmt)
                self.visits[key] = self.visits.get(key, 0) + 1
                self._resolve(rec, stmt)
                node = self.tr.nodes.get(key)
                if node is not None:
                    rec["pending"] = (node[0], node[1], node[2], len(self.sql_log), key)
        elif event == "exception":
            rec["exc"] = True
        elif event == "return":
            if rec["valid"] and rec["pending"] is not None:
                if rec["exc"] and rec["pending"][1] != "comp":
                    rec["pending"] = None
                else:
                    self._resolve(rec, None)
            self.recs.pop(id(frame), None)
        return self._local

    # -- SQL statements
    def on_sql(self, k, sql):
        try:
            self._on_sql(k, sql)
        except Exception:           # noqa: BLE001
            import traceback
            self.errors.append(traceback.format_exc())

    def _on_sql(self, k, sql):
        frames = self.stack_chain(sys._getframe(3))
        loc = self.locate(frames)
        entry = {"k": k, "site": None, "occ": 0, "occ_base": 0, "key": loc, "ndec": len(self.decisions),
                 "callee": None, "sql": " ".join(sql.split())[:80]}
        if loc is not None:
            entry["site"] = self.tr.sites.get(loc)
            entry["occ"] = entry["occ_base"] = max(self.visits.get(loc, 1) - 1, 0)
            # identity of the callee invocation (for comprehension loops)
            f = sys._getframe(3)
            prev = None
            depth_target = len(loc[0])
            seen = -1
            chainf = []
            while f is not None:
                chainf.append(f)
                f = f.f_back
            chainf.reverse()
            for fr in chainf:
                if self.fkey_of(fr.f_code) is not None:
                    seen += 1
                    if seen == depth_target:
                        idx = chainf.index(fr)
                        prev = chainf[idx + 1] if idx + 1 < len(chainf) else None
                        break
            entry["callee"] = id(prev) if prev is not None else None
            entry["_keep"] = prev
        if entry["site"] is None:
            self.unmapped.append({"k": k, "where": [f"{a.split('::')[1]}:{b}" for a, b in frames], "sql": entry["sql"]})
        self.sql_log.append(entry)

    # -- where did an exception come from
    def locate_exception(self, exc):
        tb = exc.__traceback__
        frames = []
        last_is_codeset = False
        while tb is not None:
            fk = self.fkey_of(tb.tb_frame.f_code)
            if fk is not None:
                frames.append((fk, self.norm(fk, tb.tb_lineno)))
                last_is_codeset = True
            else:
                last_is_codeset = False
            tb = tb.tb_next
        loc = self.locate(frames)
        if loc is None:
            return None, None, frames
        whole = len(loc[0]) + 1 == len(frames)
        if whole and last_is_codeset and loc in self.tr.raises:
            return "raise", self.tr.raises[loc], frames
        if loc in self.tr.sites:
            return "sql", (self.tr.sites[loc], max(self.visits.get(loc, 1) - 1, 0)), frames
        return None, None, frames


# ------------------------------------------------------------------------------------------
# configurations: seeded data + model
FN = ["ann", "bob", "cat", "dan", "eve", "fay"]
SN = ["kim", "lee", "ray", "fox", "kin", "les"]


def gen_config(rng, backend, link_type, retain, idx):
    n = rng.randint(14, 18) if link_type == "dedupe_only" else rng.randint(22, 26)
    rows = []
    for i in range(n):
        rows.append({"unique_id": i, "first_name": rng.choice(FN), "surname": rng.choice(SN),
                     "dob": rng.choice(["1990", "1991", "1992"]), "city": rng.choice(["a", "b", "c"]),
                     "cluster": rng.randrange(5)})
    grid = [0.05, 0.1, 0.2, 0.3, 0.6, 0.7, 0.8, 0.9]

    def mu():
        m = rng.choice(grid[4:])
        u = rng.choice(grid[:4])
        return [m, round(1 - m, 4)], [u, round(1 - u, 4)]
    params = {c: mu() for c in ("first_name", "surname", "dob", "city")}
    cfg = {"id": f"{backend}-{link_type}-{idx}", "backend": backend, "link_type": link_type, "retain": retain,
           "rows": rows, "params": params, "prior": rng.choice([0.01, 0.05, 0.1]),
           "max_iterations": rng.choice([2, 3]),
           "prefix": rng.choice([[], ["prob"], ["u"], ["u", "prob"]]),
           "em_col": rng.choice(["first_name", "dob"]),
           "new_city": rng.choice(["a", "b"]),
           "later": rng.choice(["deterministic_link", "compare_two_records", "find_matches_to_new_records"]),
           "cache_later": rng.choice(["compute_tf_table", "register_term_frequency_lookup"])}
    return cfg


def build(cfg):
    """fresh linker for the configuration, with its prefix operations done and auxiliary tables
    registered; the fault counter is not armed yet"""
    import splink.comparison_library as cl
    from splink import Linker, SettingsCreator, block_on
    api = new_api(cfg["backend"])
    df = pd.DataFrame(cfg["rows"])
    for c in ("first_name", "surname", "dob", "city"):
        df[c] = df[c].astype("string")
    P = cfg["params"]

    def em(col, tf=False):
        c = cl.ExactMatch(col)
        m, u = P[col]
        c = c.configure(m_probabilities=m, u_probabilities=u, term_frequency_adjustments=tf)
        return c
    comparisons = [em("first_name", tf=True), em("surname"), em("dob"), em("city")]
    settings = SettingsCreator(
        link_type=cfg["link_type"], comparisons=comparisons,
        blocking_rules_to_generate_predictions=[block_on("first_name"), block_on("surname")],
        retain_matching_columns=cfg["retain"], retain_intermediate_calculation_columns=cfg["retain"],
        probability_two_random_records_match=cfg["prior"], max_iterations=cfg["max_iterations"],
        em_convergence=1e-12, additional_columns_to_retain=["cluster"] if cfg["retain"] else [])
    if cfg["link_type"] == "dedupe_only":
        lk = Linker(df, settings, api)
    else:
        h = len(df) // 2
        a, b = df.iloc[:h].reset_index(drop=True), df.iloc[h:].reset_index(drop=True)
        lk = Linker([a, b], settings, api, input_table_aliases=["ta", "tb"])
    su.quiet()
    for p in cfg["prefix"]:
        if p == "prob":
            lk.training.estimate_probability_two_random_records_match([block_on("first_name", "surname")], recall=0.9)
        elif p == "u":
            lk.training.estimate_u_using_random_sampling(max_pairs=1e5, seed=1 if cfg["backend"] == "duckdb" else None)
    aux = {}
    return lk, api, aux


def labels_rows(cfg):
    rows = cfg["rows"]
    out = []
    if cfg["link_type"] == "dedupe_only":
        for i, a in enumerate(rows):
            for b in rows[i + 1:]:
                if a["cluster"] == b["cluster"] or (a["unique_id"] + b["unique_id"]) % 5 == 0:
                    out.append({"unique_id_l": a["unique_id"], "unique_id_r": b["unique_id"],
                                "clerical_match_score": 1.0 if a["cluster"] == b["cluster"] else 0.0})
    else:
        h = len(rows) // 2
        for a in rows[:h]:
            for b in rows[h:]:
                if a["cluster"] == b["cluster"] or (a["unique_id"] + b["unique_id"]) % 5 == 0:
                    out.append({"source_dataset_l": "ta", "unique_id_l": a["unique_id"], "source_dataset_r": "tb",
                                "unique_id_r": b["unique_id"],
                                "clerical_match_score": 1.0 if a["cluster"] == b["cluster"] else 0.0})
    return out


REC1 = {"unique_id": 100, "first_name": "ann", "surname": "kim", "dob": "1990", "city": "a", "cluster": 1}
TF_LOOKUP = [{"first_name": n, "tf_first_name": t} for n, t in zip(FN, (0.3, 0.25, 0.2, 0.1, 0.1, 0.05))]
REC2 = {"unique_id": 101, "first_name": "ann", "surname": "kin", "dob": "1990", "city": "a", "cluster": 1}


def _labels(lk, cfg):
    return lk.table_management.register_labels_table(pd.DataFrame(labels_rows(cfg)), overwrite=True)


def _existing_file():
    d = tempfile.TemporaryDirectory(prefix="c08_")
    path = os.path.join(d.name, "model.json")
    open(path, "w").write("{}")
    return {"tmp": d, "path": path}


def cluster_multi(lk, cfg, aux):
    from splink.internals.clustering import cluster_pairwise_predictions_at_multiple_thresholds
    nodes = pd.DataFrame([{"unique_id": r["unique_id"]} for r in cfg["rows"]])
    return cluster_pairwise_predictions_at_multiple_thresholds(
        nodes, aux["pred"], lk._db_api, node_id_column_name="unique_id", match_probability_thresholds=[0.2, 0.6],
        output_cluster_summary_stats=False)


# scenario: name -> (operation, setup(lk,cfg)->aux, call(lk,cfg,aux), kind, backends)
def scenarios():
    from splink import block_on
    S = {}

    def add(name, op, call, setup=None, user=False, needs_retain=False, backends=("duckdb", "sqlite"), link_types=None,
            no_retain=False, heavy=False):
        S[name] = {"name": name, "op": op, "call": call, "setup": setup, "user": user, "needs_retain": needs_retain,
                   "backends": backends, "link_types": link_types, "no_retain": no_retain, "heavy": heavy}

    add("estimate_u", "estimate_u_using_random_sampling",
        lambda lk, cfg, aux: lk.training.estimate_u_using_random_sampling(max_pairs=1e5, seed=1 if cfg["backend"] == "duckdb" else None))
    add("em", "estimate_parameters_using_expectation_maximisation",
        lambda lk, cfg, aux: lk.training.estimate_parameters_using_expectation_maximisation(block_on(cfg["em_col"])))
    add("em_populate_prior", "estimate_parameters_using_expectation_maximisation",
        lambda lk, cfg, aux: lk.training.estimate_parameters_using_expectation_maximisation(
            block_on(cfg["em_col"]), fix_u_probabilities=False,
            populate_probability_two_random_records_match_from_trained_values=True), backends=("duckdb",), heavy=True)
    add("prob", "estimate_probability_two_random_records_match",
        lambda lk, cfg, aux: lk.training.estimate_probability_two_random_records_match([block_on("first_name", "surname")], recall=0.9))
    add("m_label", "estimate_m_from_label_column",
        lambda lk, cfg, aux: lk.training.estimate_m_from_label_column("cluster"))
    add("m_pairwise", "estimate_m_from_pairwise_labels",
        lambda lk, cfg, aux: lk.training.estimate_m_from_pairwise_labels(aux["labels"]),
        setup=lambda lk, cfg: {"labels": _labels(lk, cfg)})
    add("predict", "predict", lambda lk, cfg, aux: lk.inference.predict())
    add("predict_threshold", "predict",
        lambda lk, cfg, aux: lk.inference.predict(threshold_match_probability=0.3, materialise_blocked_pairs=False), backends=("duckdb",))
    add("deterministic_link", "deterministic_link", lambda lk, cfg, aux: lk.inference.deterministic_link())
    add("find_matches", "find_matches_to_new_records",
        lambda lk, cfg, aux: lk.inference.find_matches_to_new_records([dict(REC1, city=cfg["new_city"]), REC2], blocking_rules=[block_on("city")]))
    add("compare_two", "compare_two_records",
        lambda lk, cfg, aux: lk.inference.compare_two_records(REC1, REC2))
    add("cluster", "cluster_pairwise_predictions_at_threshold",
        lambda lk, cfg, aux: lk.clustering.cluster_pairwise_predictions_at_threshold(aux["pred"], 0.5),
        setup=lambda lk, cfg: {"pred": lk.inference.predict()}, heavy=True)
    add("cluster_best_links", "cluster_using_single_best_links",
        lambda lk, cfg, aux: lk.clustering.cluster_using_single_best_links(aux["pred"], ["ta"], 0.5),
        setup=lambda lk, cfg: {"pred": lk.inference.predict()}, backends=("duckdb",), link_types=("link_only",))
    add("accuracy_column", "accuracy_analysis_from_labels_column",
        lambda lk, cfg, aux: lk.evaluation.accuracy_analysis_from_labels_column("cluster", output_type="table"),
        needs_retain=True, backends=("duckdb",))
    add("accuracy_table", "accuracy_analysis_from_labels_table",
        lambda lk, cfg, aux: lk.evaluation.accuracy_analysis_from_labels_table(aux["labels"], output_type="table"),
        setup=lambda lk, cfg: {"labels": _labels(lk, cfg)}, needs_retain=True, backends=("duckdb",))
    add("errors_column", "prediction_errors_from_labels_column",
        lambda lk, cfg, aux: lk.evaluation.prediction_errors_from_labels_column("cluster"),
        needs_retain=True, backends=("duckdb",))
    add("errors_table", "prediction_errors_from_labels_table",
        lambda lk, cfg, aux: lk.evaluation.prediction_errors_from_labels_table(aux["labels"]),
        setup=lambda lk, cfg: {"labels": _labels(lk, cfg)}, needs_retain=True, backends=("duckdb",))

    # ---- second wave: table management, remaining evaluation / clustering, misc, visualisation data
    def s_pred(lk, cfg):
        return {"pred": lk.inference.predict(), "tmp": tempfile.TemporaryDirectory(prefix="c08_")}

    def s_pred_clusters(lk, cfg):
        pred = lk.inference.predict()
        return {"pred": pred, "clusters": lk.clustering.cluster_pairwise_predictions_at_threshold(pred, 0.5),
                "tmp": tempfile.TemporaryDirectory(prefix="c08_")}

    def s_frames(lk, cfg):
        # pandas copies of the tables a user would register, computed on a separate linker
        lk2, _api2, _ = build(cfg)
        pred = lk2.inference.predict().as_pandas_dataframe()
        from splink.internals.pipeline import CTEPipeline
        from splink.internals.vertically_concatenate import compute_df_concat_with_tf
        concat = compute_df_concat_with_tf(lk2, CTEPipeline()).as_pandas_dataframe()
        lk.inference.predict()          # so that the linker under test has a warm cache
        return {"pred_pd": pred, "concat_pd": concat}

    add("compute_tf_table", "compute_tf_table", lambda lk, cfg, aux: lk.table_management.compute_tf_table("first_name"))
    add("register_tf_lookup", "register_term_frequency_lookup",
        lambda lk, cfg, aux: lk.table_management.register_term_frequency_lookup(pd.DataFrame(TF_LOOKUP), "first_name"),
        setup=lambda lk, cfg: {"pred": lk.inference.predict()})
    add("register_concat_with_tf", "register_table_input_nodes_concat_with_tf",
        lambda lk, cfg, aux: lk.table_management.register_table_input_nodes_concat_with_tf(aux["concat_pd"], overwrite=True),
        setup=s_frames)
    add("register_predict", "register_table_predict",
        lambda lk, cfg, aux: lk.table_management.register_table_predict(aux["pred_pd"]), setup=s_frames)
    add("register_labels", "register_labels_table",
        lambda lk, cfg, aux: lk.table_management.register_labels_table(pd.DataFrame(labels_rows(cfg))))
    add("register_table", "register_table",
        lambda lk, cfg, aux: lk.table_management.register_table(pd.DataFrame(labels_rows(cfg)), "c08_user_table", overwrite=True))
    add("invalidate_cache", "invalidate_cache", lambda lk, cfg, aux: lk.table_management.invalidate_cache(), setup=s_pred)
    add("delete_tables", "delete_tables_created_by_splink_from_db",
        lambda lk, cfg, aux: lk.table_management.delete_tables_created_by_splink_from_db(), setup=s_pred)
    add("unlinkables", "unlinkables_chart", lambda lk, cfg, aux: lk.evaluation.unlinkables_chart(as_dict=True), backends=("duckdb",))
    add("labelling_tool", "labelling_tool_for_specific_record",
        lambda lk, cfg, aux: lk.evaluation.labelling_tool_for_specific_record(
            3, source_dataset=None if cfg["link_type"] == "dedupe_only" else "ta",
            out_path=os.path.join(aux["tmp"].name, "lt.html"), overwrite=True),
        setup=lambda lk, cfg: {"tmp": tempfile.TemporaryDirectory(prefix="c08_")}, backends=("duckdb",))
    add("graph_metrics", "compute_graph_metrics",
        lambda lk, cfg, aux: lk.clustering.compute_graph_metrics(aux["pred"], aux["clusters"], threshold_match_probability=0.5),
        setup=s_pred_clusters, backends=("duckdb",))
    add("cluster_multi", "cluster_pairwise_predictions_at_multiple_thresholds",
        lambda lk, cfg, aux: cluster_multi(lk, cfg, aux), setup=s_pred, backends=("duckdb",), link_types=("dedupe_only",),
        heavy=True)
    add("save_model", "save_model_to_json",
        lambda lk, cfg, aux: lk.misc.save_model_to_json(os.path.join(aux["tmp"].name, "m.json"), overwrite=True),
        setup=lambda lk, cfg: {"tmp": tempfile.TemporaryDirectory(prefix="c08_")}, backends=("duckdb",))
    add("query_sql", "query_sql", lambda lk, cfg, aux: lk.misc.query_sql("select 1 as x union all select 2 as x"))
    add("histogram", "match_weights_histogram",
        lambda lk, cfg, aux: lk.visualisations.match_weights_histogram(aux["pred"], as_dict=True), setup=s_pred, backends=("duckdb",))
    add("comparison_viewer", "comparison_viewer_dashboard",
        lambda lk, cfg, aux: lk.visualisations.comparison_viewer_dashboard(
            aux["pred"], os.path.join(aux["tmp"].name, "cv.html"), overwrite=True, return_html_as_string=True),
        setup=s_pred, needs_retain=True, backends=("duckdb",))
    add("cluster_studio", "cluster_studio_dashboard",
        lambda lk, cfg, aux: lk.visualisations.cluster_studio_dashboard(
            aux["pred"], aux["clusters"], os.path.join(aux["tmp"].name, "cs.html"), overwrite=True, return_html_as_string=True),
        setup=s_pred_clusters, needs_retain=True, backends=("duckdb",))
    add("waterfall", "waterfall_chart",
        lambda lk, cfg, aux: lk.visualisations.waterfall_chart(aux["recs"], as_dict=True),
        setup=lambda lk, cfg: {"recs": lk.inference.predict().as_record_dict(limit=2)}, needs_retain=True, backends=("duckdb",))
    add("tf_adjustment_chart", "tf_adjustment_chart",
        lambda lk, cfg, aux: lk.visualisations.tf_adjustment_chart("first_name", as_dict=True), backends=("duckdb",))
    add("parameter_estimates", "parameter_estimate_comparisons_chart",
        lambda lk, cfg, aux: lk.visualisations.parameter_estimate_comparisons_chart(as_dict=True), backends=("duckdb",))
    add("match_weights_chart", "match_weights_chart",
        lambda lk, cfg, aux: lk.visualisations.match_weights_chart(as_dict=True), backends=("duckdb",))
    add("m_u_parameters_chart", "m_u_parameters_chart",
        lambda lk, cfg, aux: lk.visualisations.m_u_parameters_chart(as_dict=True), backends=("duckdb",))
    add("accuracy_column_roc", "accuracy_analysis_from_labels_column",
        lambda lk, cfg, aux: lk.evaluation.accuracy_analysis_from_labels_column(
            "cluster", output_type="roc", match_weight_round_to_nearest=0.5), needs_retain=True, backends=("duckdb",))
    add("accuracy_table_precision_recall", "accuracy_analysis_from_labels_table",
        lambda lk, cfg, aux: lk.evaluation.accuracy_analysis_from_labels_table(aux["labels"], output_type="precision_recall"),
        setup=lambda lk, cfg: {"labels": _labels(lk, cfg)}, needs_retain=True, backends=("duckdb",))
    add("errors_column_fn_only", "prediction_errors_from_labels_column",
        lambda lk, cfg, aux: lk.evaluation.prediction_errors_from_labels_column("cluster", include_false_positives=False),
        needs_retain=True, backends=("duckdb",))

    # ---- user-level failures
    add("U:em_no_pairs", "estimate_parameters_using_expectation_maximisation",
        lambda lk, cfg, aux: lk.training.estimate_parameters_using_expectation_maximisation(
            f"l.{cfg['em_col']} = r.{cfg['em_col']} and l.surname = 'no_such_surname'"), user=True)
    add("U:em_fix_m_and_u", "estimate_parameters_using_expectation_maximisation",
        lambda lk, cfg, aux: lk.training.estimate_parameters_using_expectation_maximisation(
            block_on(cfg["em_col"]), fix_m_probabilities=True, fix_u_probabilities=True), user=True)
    add("U:em_exploding_rule", "estimate_parameters_using_expectation_maximisation",
        lambda lk, cfg, aux: lk.training.estimate_parameters_using_expectation_maximisation(
            {"blocking_rule": "l.first_name = r.first_name", "arrays_to_explode": ["first_name"]}), user=True, backends=("duckdb",))
    add("U:recall_inconsistent", "estimate_probability_two_random_records_match",
        lambda lk, cfg, aux: lk.training.estimate_probability_two_random_records_match([block_on("first_name")], recall=0.0001), user=True)
    add("U:recall_out_of_range", "estimate_probability_two_random_records_match",
        lambda lk, cfg, aux: lk.training.estimate_probability_two_random_records_match([block_on("first_name")], recall=1.5), user=True)
    add("U:find_matches_missing_columns", "find_matches_to_new_records",
        lambda lk, cfg, aux: lk.inference.find_matches_to_new_records([{"unique_id": 100, "first_name": "ann"}], blocking_rules=[block_on("city")]), user=True)
    add("U:compare_two_missing_columns", "compare_two_records",
        lambda lk, cfg, aux: lk.inference.compare_two_records({"unique_id": 100, "first_name": "ann"}, {"unique_id": 101, "first_name": "ann"}), user=True)
    add("U:m_label_bad_column", "estimate_m_from_label_column",
        lambda lk, cfg, aux: lk.training.estimate_m_from_label_column("no_such_column"), user=True)
    add("U:m_pairwise_bad_table", "estimate_m_from_pairwise_labels",
        lambda lk, cfg, aux: lk.training.estimate_m_from_pairwise_labels("no_such_table"), user=True)
    add("U:accuracy_bad_label_column", "accuracy_analysis_from_labels_column",
        lambda lk, cfg, aux: lk.evaluation.accuracy_analysis_from_labels_column("no_such_column", output_type="table"),
        user=True, needs_retain=True, backends=("duckdb",))
    add("U:accuracy_bad_output_type", "accuracy_analysis_from_labels_column",
        lambda lk, cfg, aux: lk.evaluation.accuracy_analysis_from_labels_column("cluster", output_type="no_such_type"),
        user=True, needs_retain=True, backends=("duckdb",))
    add("U:register_table_exists", "register_table",
        lambda lk, cfg, aux: lk.table_management.register_table(pd.DataFrame(labels_rows(cfg)), "c08_user_table"),
        setup=lambda lk, cfg: {"t": lk.table_management.register_table(pd.DataFrame(labels_rows(cfg)), "c08_user_table")}, user=True)
    add("U:tf_lookup_already_registered", "register_term_frequency_lookup",
        lambda lk, cfg, aux: lk.table_management.register_term_frequency_lookup(pd.DataFrame(TF_LOOKUP[:3]), "first_name"),
        setup=lambda lk, cfg: {"t": lk.table_management.register_term_frequency_lookup(pd.DataFrame(TF_LOOKUP), "first_name")}, user=True)
    add("U:compute_tf_table_bad_column", "compute_tf_table",
        lambda lk, cfg, aux: lk.table_management.compute_tf_table("no_such_column"), user=True)
    add("U:query_sql_bad_output_type", "query_sql",
        lambda lk, cfg, aux: lk.misc.query_sql("select 1 as x", output_type="no_such_type"), user=True)
    add("U:query_sql_bad_sql", "query_sql", lambda lk, cfg, aux: lk.misc.query_sql("select no_such_col from no_such_table"), user=True)
    add("U:save_model_existing_path", "save_model_to_json",
        lambda lk, cfg, aux: lk.misc.save_model_to_json(aux["path"]),
        setup=lambda lk, cfg: _existing_file(), user=True, backends=("duckdb",))
    add("U:waterfall_without_retain", "waterfall_chart",
        lambda lk, cfg, aux: lk.visualisations.waterfall_chart(aux["recs"], as_dict=True),
        setup=lambda lk, cfg: {"recs": lk.inference.predict().as_record_dict(limit=2)}, user=True, backends=("duckdb",),
        no_retain=True)
    add("U:graph_metrics_without_threshold", "compute_graph_metrics",
        lambda lk, cfg, aux: lk.clustering.compute_graph_metrics(aux["pred"], aux["pred"]),
        setup=lambda lk, cfg: {"pred": lk.inference.predict()}, user=True, backends=("duckdb",))
    add("U:tf_adjustment_chart_bad_column", "tf_adjustment_chart",
        lambda lk, cfg, aux: lk.visualisations.tf_adjustment_chart("surname", as_dict=True), user=True, backends=("duckdb",))
    add("U:cluster_threshold_without_probability", "cluster_pairwise_predictions_at_threshold",
        lambda lk, cfg, aux: lk.clustering.cluster_pairwise_predictions_at_threshold(aux["det"], 0.5),
        setup=lambda lk, cfg: {"det": lk.inference.deterministic_link()}, user=True)
    return S


# ------------------------------------------------------------------------------------------
# snapshots
def level_key(cl):
    return [getattr(cl, "_m_probability", None), getattr(cl, "_u_probability", None)]


def snapshot(lk):
    s = lk._settings_obj
    cms = s.core_model_settings
    comps, mu, trained, lother = [], {}, {}, {}
    for cc in cms.comparisons:
        comps.append([cc.output_column_name, [cl.sql_condition for cl in cc.comparison_levels]])
        for i, cl in enumerate(cc.comparison_levels):
            key = f"{cc.output_column_name}|{i}"
            mu[key] = level_key(cl)
            trained[key] = [list(map(str, getattr(cl, "_trained_m_probabilities", []))),
                            list(map(str, getattr(cl, "_trained_u_probabilities", [])))]
            tfc = getattr(cl, "_tf_adjustment_column", None)
            lother[key] = [getattr(tfc, "name", tfc) if tfc is not None else None,
                           getattr(cl, "_tf_adjustment_weight", None), getattr(cl, "_fix_m_probability", None),
                           getattr(cl, "_fix_u_probability", None), getattr(cl, "_label_for_charts", None)]
    brs = [[type(b).__name__, b.blocking_rule_sql, [p.blocking_rule_sql for p in getattr(b, "preceding_rules", [])]]
           for b in s._blocking_rules_to_generate_predictions]
    try:
        model = lk.misc.save_model_to_json()
    except Exception as e:          # noqa: BLE001  - a corrupted settings object is a difference, not a crash
        model = {"_save_model_to_json_raises": f"{type(e).__name__}: {str(e)[:200]}"}
    other = {k: v for k, v in model.items() if k not in (
        "comparisons", "probability_two_random_records_match", "blocking_rules_to_generate_predictions", "link_type",
        "retain_matching_columns", "retain_intermediate_calculation_columns")}
    other["_additional"] = list(getattr(s, "_additional_column_names_to_retain", []))
    return {
        "FCoreModel": id(cms),
        "FComparisons": comps, "FPrior": cms.probability_two_random_records_match, "FLevelMU": mu,
        "FLevelTrained": trained, "FLevelOther": lother, "FBlockingRules": brs, "FLinkType": s._link_type,
        "FRetainMatching": bool(s._retain_matching_columns),
        "FRetainIntermediate": bool(s._retain_intermediate_calculation_columns),
        "FSessions": len(lk._em_training_sessions), "FOther": other,
        # named cache entries that are not derived by Splink itself (registered lookups / predictions / concat)
        "FCache": sorted([str(k), str(getattr(d, "physical_name", None))] for k, d in lk._intermediate_table_cache.items()
                         if not getattr(d, "created_by_splink", False)),
        "_json": json.dumps(model, sort_keys=True, default=str),
    }


LEVEL_FIELDS = ("FLevelMU", "FLevelTrained", "FLevelOther")


def snap_diff(a, b):
    def js(x):
        return json.dumps(x, sort_keys=True, default=str)
    changed = []
    for f in FIELDS:
        if f in LEVEL_FIELDS:
            # per level of the comparisons present on both sides (a removed comparison is FComparisons)
            if any(js(a[f][k]) != js(b[f][k]) for k in a[f] if k in b[f]):
                changed.append(f)
        elif js(a[f]) != js(b[f]):
            changed.append(f)
    if a["_json"] != b["_json"] and not [f for f in changed if f != "FCoreModel"]:
        changed.append("FOther")
    return changed


def init_codes(snap):
    return [1 if (f in ("FRetainMatching", "FRetainIntermediate") and snap[f]) else 0 for f in FIELDS]


# ------------------------------------------------------------------------------------------
# later results
def canon_rows(sdf):
    rows = sdf.as_record_dict()
    out = []
    for r in rows:
        d = {}
        for k, v in r.items():
            if isinstance(v, float) and math.isnan(v):
                v = None
            d[k] = v
        out.append(d)
    idk = [k for k in ("source_dataset_l", "unique_id_l", "source_dataset_r", "unique_id_r") if out and k in out[0]]
    out.sort(key=lambda d: tuple(str(d[k]) for k in idk) + (json.dumps(d, sort_keys=True, default=str),))
    return out


def rows_equal(a, b, tol=1e-9):
    if len(a) != len(b):
        return f"row count {len(a)} vs {len(b)}"
    for i, (x, y) in enumerate(zip(a, b)):
        if set(x) != set(y):
            return f"columns differ: only here {sorted(set(x) - set(y))}, only in reference {sorted(set(y) - set(x))}"
        for k in x:
            u, v = x[k], y[k]
            if isinstance(u, (int, float)) and isinstance(v, (int, float)) and not isinstance(u, bool):
                if abs(u - v) > tol * max(1.0, abs(u), abs(v)):
                    return f"row {i} column {k}: {u} vs {v}"
            elif u != v:
                return f"row {i} column {k}: {u!r} vs {v!r}"
    return None


def later_ops(lk, cfg):
    from splink import block_on
    res = {"predict": canon_rows(lk.inference.predict())}
    which = cfg["later"]
    if which == "deterministic_link":
        res[which] = canon_rows(lk.inference.deterministic_link())
    elif which == "compare_two_records":
        res[which] = canon_rows(lk.inference.compare_two_records(REC1, REC2))
    else:
        res[which] = canon_rows(lk.inference.find_matches_to_new_records([REC1], blocking_rules=[block_on("dob")]))
    # cache-sensitive: what the table cache serves must be what a linker that never made the failed call serves
    if cfg.get("cache_later", "compute_tf_table") == "compute_tf_table":
        res["compute_tf_table"] = canon_rows(lk.table_management.compute_tf_table("first_name"))
    else:
        lk.table_management.register_term_frequency_lookup(pd.DataFrame(TF_LOOKUP), "first_name", overwrite=True)
    res["predict_after_cache_op"] = canon_rows(lk.inference.predict())
    return res


# ------------------------------------------------------------------------------------------
class Runner:
    def __init__(self, ctx: Ctx, ix: T.Index, traces: dict):
        self.ctx = ctx
        self.ix = ix
        self.traces = traces
        self.S = scenarios()
        self.cases = []           # dicts with the Coq term and the bookkeeping
        self.findings = {}        # (op, leak) -> first witness + count
        self.ref_cache = {}
        self.stats = {"fault_points": {}, "unmodelled_failure_points": 0, "swallowed_faults": 0,
                      "unmapped_statements": [], "later_results_compared": 0, "model_over_approximations": 0}

    # -- one run of a scenario on a fresh linker
    def fresh(self, cfg, sc):
        try:
            lk, api, _ = build(cfg)
            aux = sc["setup"](lk, cfg) if sc["setup"] else {}
        except Exception as e:      # noqa: BLE001  - e.g. a trained u of 0 makes every predict() raise on this data
            raise SetupFailed(f"{type(e).__name__}: {str(e)[-160:]}") from e
        return lk, api, aux

    def reference(self, cfg, sc):
        key = (cfg["id"], sc["name"] if sc["setup"] else None)
        if key not in self.ref_cache:
            try:
                lk, api, aux = self.fresh(cfg, sc)
                self.ref_cache[key] = later_ops(lk, cfg)
            except Exception as e:      # noqa: BLE001  - the later operations fail on this configuration by themselves
                self.ref_cache[key] = ("reference raises", f"{type(e).__name__}: {str(e)[-160:]}")
        return self.ref_cache[key]

    def observe(self, cfg, sc, trace):
        lk, api, aux = self.fresh(cfg, sc)
        before = snapshot(lk)
        obs = Observer(trace, self.ix) if isinstance(trace, T.Trace) else None
        api._c08_obs = obs
        api._c08_n = 0
        api._c08_armed = True
        exc = None
        if obs:
            obs.start()
        try:
            sc["call"](lk, cfg, aux)
        except Exception as e:          # noqa: BLE001
            exc = e
        finally:
            if obs:
                obs.stop()
            api._c08_armed = False
        return lk, api, obs, before, exc

    def record_finding(self, cfg, sc, k, changed, detail, later=None):
        if changed:
            leak = "+".join(sorted({LEAK_NAME[f] for f in changed if f != "FCoreModel"} or {"core_model_settings"}))
        else:
            leak = "later_results"
        key = (sc["op"], leak)
        f = self.findings.setdefault(key, {"count": 0, "first": None, "points": []})
        f["count"] += 1
        f["points"].append(f"{cfg['id']}:{sc['name']}:{k}")
        if f["first"] is None:
            f["first"] = {"config": {x: cfg[x] for x in cfg if x != "rows"}, "rows": cfg["rows"], "scenario": sc["name"],
                          "operation": sc["op"], "fault_point_k": k, "differing_fields": changed, "detail": detail,
                          "later": later}

    def check_after_failure(self, cfg, sc, lk, before, k, exc):
        after = snapshot(lk)
        changed = snap_diff(before, after)
        detail = {f: {"before": before[f], "after": after[f]} for f in changed if f != "FCoreModel"}
        later_msg = None
        ref = self.reference(cfg, sc)
        try:
            if isinstance(ref, tuple):
                self.stats["skipped_later_reference_raises"] = self.stats.get("skipped_later_reference_raises", 0) + 1
                got, ref = {}, {}
            else:
                got = later_ops(lk, cfg)
                self.stats["later_results_compared"] += 1
            for name in ref:
                m = rows_equal(got[name], ref[name])
                if m:
                    later_msg = f"{name}() after the failed call differs from the reference linker: {m}"
                    break
        except Exception as e:      # noqa: BLE001
            later_msg = f"later operation raised after the failed call: {type(e).__name__}: {str(e)[:300]}"
        vis_changed = [f for f in changed if f != "FCoreModel"]
        if vis_changed or later_msg:
            self.record_finding(cfg, sc, k, vis_changed, {"state": detail, "exception": f"{type(exc).__name__}: {str(exc)[:200]}"}, later_msg)
        return changed, later_msg

    def add_case(self, cfg, sc, k, oracle, flt, site, before, changed, meta):
        real = [f in changed for f in FIELDS]
        strict = [f not in LOOSE for f in FIELDS]
        term = "(p_%s, %s, %s, %s, %s, %s, %s)" % (
            sc["op"],
            coq_list([f"({n}, {coq_bool(d)})" for n, d in oracle], "(nat * bool)"),
            "None" if flt is None else f"(Some ({flt[0]}, {flt[1]}))",
            str(site),
            coq_list([coq_Z(z) for z in init_codes(before)]),
            coq_list([coq_bool(b) for b in strict]),
            coq_list([coq_bool(b) for b in real]))
        self.cases.append({"term": term, "meta": dict(meta, config=cfg["id"], scenario=sc["name"], op=sc["op"], k=k,
                                                      site=site, flt=flt, changed=changed, oracle_len=len(oracle))})

    def run_scenario(self, cfg, sc, stride=1, offset=0):
        try:
            self._run_scenario(cfg, sc, stride, offset)
        except SetupFailed as e:
            self.ctx.notes.append(f"skipped {sc['name']} on {cfg['id']}: building the linker / the scenario's setup raises: {e}")
            self.ctx.hist("skipped_setup_failed", sc["name"])

    def _run_scenario(self, cfg, sc, stride=1, offset=0):
        ctx = self.ctx
        trace = self.traces.get(sc["op"])
        modelled = isinstance(trace, T.Trace)
        lk, api, obs, before, exc = self.observe(cfg, sc, trace)
        N = api._c08_n
        fp = self.stats["fault_points"].setdefault(sc["name"], {"operation": sc["op"], "statements": {}, "injected": 0, "raised": 0})
        fp["statements"][cfg["id"]] = N
        if obs and obs.errors:
            raise RuntimeError("C08 observer failed: " + obs.errors[0])
        if obs and obs.unmapped:
            for u in obs.unmapped[:3]:
                self.stats["unmapped_statements"].append(dict(u, scenario=sc["name"], config=cfg["id"]))
        if exc is not None and not sc["user"]:
            # the operation fails by itself on this configuration (e.g. a function the backend lacks):
            # that is a failing call as well - check it like a user-level failure
            ctx.notes.append(f"scenario {sc['name']} raised without a fault on {cfg['id']}: {type(exc).__name__}: {str(exc)[-200:]}")
        if sc["user"] or exc is not None:
            ctx.hist("scenario_kind", "user_level")
            if exc is None:
                ctx.notes.append(f"user-level scenario {sc['name']} did not raise on {cfg['id']}")
                ctx.count_case((cfg["id"], sc["name"], "noraise"), False)
                return
            fp["injected"] += 1
            fp["raised"] += 1
            changed, later = self.check_after_failure(cfg, sc, lk, before, "user", exc)
            ctx.count_case((cfg["id"], sc["name"], "user"), True,
                           {"scenario": sc["name"], "exception": type(exc).__name__, "changed": changed})
            if modelled:
                kind, where, frames = obs.locate_exception(exc)
                if kind == "raise":
                    self.add_case(cfg, sc, "user", obs.decisions, None, where, before, changed, {"kind": "raise"})
                elif kind == "sql":
                    self.add_case(cfg, sc, "user", obs.decisions, where, where[0], before, changed, {"kind": "sql-error"})
                else:
                    self.stats["unmodelled_failure_points"] += 1
                    ctx.hist("unmodelled_failure", sc["name"])
            return
        ctx.hist("scenario_kind", "sql_fault")
        ks = [k for k in range(1, N + 1) if (k - 1 - offset) % stride == 0] if stride > 1 else list(range(1, N + 1))
        for k in ks:
            lk2, api2, aux2 = self.fresh(cfg, sc)
            b2 = snapshot(lk2)
            api2._c08_n = 0
            api2._c08_fail_at = k
            api2._c08_armed = True
            e2 = None
            try:
                sc["call"](lk2, cfg, aux2)
            except Exception as e:      # noqa: BLE001
                e2 = e
            finally:
                api2._c08_armed = False
            fp["injected"] += 1
            if e2 is None:
                self.stats["swallowed_faults"] += 1
                ctx.count_case((cfg["id"], sc["name"], k), False)
                continue
            fp["raised"] += 1
            changed, later = self.check_after_failure(cfg, sc, lk2, b2, k, e2)
            ctx.count_case((cfg["id"], sc["name"], k), True,
                           {"scenario": sc["name"], "k": k, "of": N, "changed": changed})
            ctx.hist("fault_position_decile", min(9, (k - 1) * 10 // max(N, 1)))
            if modelled:
                ent = obs.sql_log[k - 1] if k - 1 < len(obs.sql_log) else None
                if ent is None or ent["site"] is None:
                    self.stats["unmodelled_failure_points"] += 1
                    continue
                self.add_case(cfg, sc, k, obs.decisions[:ent["ndec"]], (ent["site"], ent["occ"]), ent["site"], b2, changed,
                              {"kind": "fault", "sql": ent["sql"]})
