"""C11  Multi-threshold clustering equals clustering at each threshold.

 P  Properties/C11.v: the statement-by-statement model of
    cluster_pairwise_predictions_at_multiple_thresholds over the C05 spec (Model/MultiThr.v)
    yields, for every requested threshold (any order, probability or integer match weight), the
    component-minimum labelling of the graph thresholded there; summary statistics are those of
    that partition.
 X  the real function on DuckDB and SQLite (detailed and summary output) on exhaustive small
    probability grids and the seeded graph families of C05, compared inside Coq with `multi`,
    `cluster_stats` and the proved spec `comp_labels`.
"""
from __future__ import annotations

import itertools
import json
import time

from harness import c05_guard as G
from harness import c05_x as X5
from harness import c11_x as X
from harness.common import Ctx, REPO, git_blob

KNOWN_NEG_WEIGHT = "KF-C11-negative-weight-column"


def _sample(case):
    return {k: case[k] for k in ("backend", "idkind", "family", "thresholds", "stats")} | {
        "earlier_calls_on_same_db_api": len(case.get("prior") or []), "splinkdataframe_inputs": bool(case.get("sdf")),
        "n_nodes": len(case["nodes"]), "n_edges": len(case["edges"]), "edges_head": case["edges"][:6]}


class StopGeneration(Exception):
    pass


class Runner:
    def __init__(self, ctx):
        self.ctx = ctx
        self.terms, self.meta, self.weight, self.direct_fail, self.single_fail = [], [], [], [], []
        self.engine_s = 0.0
        self.nonterm = []

    def note_nonterm(self, case, e):
        self.nonterm.append((case, str(e)))
        if len(self.nonterm) >= 3:
            raise StopGeneration() from e

    def add(self, case):
        t0 = time.time()
        try:
            recs, cap = X.run_impl(case, capture=True)
        except G.NonTermination as e:
            self.engine_s += time.time() - t0
            self.note_nonterm(case, e)
            return
        except Exception as e:  # noqa: BLE001
            self.engine_s += time.time() - t0
            self.direct_fail.append((case, {"error": repr(e)[:800]}))
            return
        self.engine_s += time.time() - t0
        self._process(case, recs, cap)

    def add_sequence(self, cases):
        """Several calls on ONE db_api; every call is checked.  case["prior"] records the earlier calls so
        that the oracle, the shrinker and --replay re-run the same history."""
        from harness import splink_util as su
        api = su.make_api(cases[0]["backend"])
        done = []
        for c in cases:
            c["prior"] = [{k: v for k, v in d.items() if k != "prior"} for d in done]
            t0 = time.time()
            try:
                recs, cap = X.call_on(api, c, capture=True)
            except G.NonTermination as e:
                self.engine_s += time.time() - t0
                self.note_nonterm(c, e)
                return
            except Exception as e:  # noqa: BLE001
                self.engine_s += time.time() - t0
                self.direct_fail.append((c, {"error": repr(e)[:800]}))
                return
            self.engine_s += time.time() - t0
            self.ctx.hist("position in a sequence of calls on one db_api", len(done) + 1)
            self._process(c, recs, cap)
            done.append(c)

    def _process(self, case, recs, cap):
        ctx = self.ctx
        canon, why = (X.canonical_stats if case.get("stats") else X.canonical_detail)(case, recs)
        if canon is None:
            self.direct_fail.append((case, {"rows": recs[:30], "why": why}))
            return
        if case["thresholds"][0] == "wf":
            # property oracle directly on the implementation: multi-threshold vs independent single-threshold runs
            t1 = time.time()
            ok_, info = X.single_vs_multi(case, recs)
            self.engine_s += time.time() - t1
            on_thr = sum(1 for e in case["edges"] if isinstance(e[2], float)
                         and any(e[2] == X.single_threshold_prob(w) for w in case["thresholds"][1]))
            ctx.hist("edges exactly on a weight-derived threshold", min(on_thr, 5))
            if not ok_:
                self.single_fail.append((case, info))
        n = len(case["nodes"])
        kind, vals = case["thresholds"]
        ds = X.distinct_sorted(case)
        parts = [tuple(sorted(X.oracle(case, v).items())) for v, _ in ds]
        nontrivial = n >= 3 and len(set(parts)) >= 2
        key = (case["backend"], case["idkind"], tuple(X5.key_of(x) for x in case["nodes"]),
               tuple((X5.key_of(l), X5.key_of(r), k) for l, r, k in case["edges"]), str(case["thresholds"]), case.get("stats"))
        ctx.count_case(key, nontrivial, _sample(case))
        ctx.hist("family", case["family"].rstrip("0123456789x"))
        ctx.hist("backend/output", f"{case['backend']}/{'stats' if case.get('stats') else 'detailed'}")
        ctx.hist("threshold form", {"w": "integer weight", "wf": "fractional weight", "p": "probability"}[kind])
        ctx.hist("thresholds", len(vals))
        ctx.hist("order", "sorted" if list(X.thr_values(case)) == sorted(X.thr_values(case)) else "unsorted")
        ctx.hist("duplicates", len(vals) != len(ds))
        ctx.hist("distinct partitions", len(set(parts)))
        ctx.hist("has 0 or 1", any(v in (0, 1) for v, _ in ds))
        if any(e[2] is None for e in case["edges"]):
            ctx.hist("edge rows with NULL probability", min(5, sum(1 for e in case["edges"] if e[2] is None)))
        try:
            steps = X.canonical_steps(case, cap)
        except Exception as e:  # noqa: BLE001
            self.direct_fail.append((case, {"error": "captured stable / in-play tables could not be read: " + repr(e)[:400]}))
            return
        ctx.hist("passes with a stable and an unstable cluster",
                 sum(1 for sn, nip in steps if sn and nip))
        self.terms.append(X.coq_term(case, canon, steps))
        self.meta.append(case)
        self.weight.append(float(n) * (n + len(case["edges"])) * len(vals))


def generate(ctx: Ctx, R: Runner):
    rng = ctx.rng
    quick = ctx.quick
    # ---- exhaustive probability grids: 3 nodes, each pair absent or at 256/512/768 -------------
    levels = [None, 256, 512, 768]
    lists3 = [["p", [256, 512, 768]], ["p", [768, 256, 512]], ["p", [512, 768]], ["p", [768, 512, 512]],
              ["p", [384, 640]], ["p", [1024, 0, 512]], ["w", [1, 0]], ["p", [256, 768]]]
    for probs in itertools.product(levels, repeat=3):
        for j, ths in enumerate(lists3 if not quick else rng.sample(lists3, 3)):
            R.add(X.grid_case(rng, 3, probs, ths, "sqlite" if (j % 2 == 0) else "duckdb", stats=(rng.random() < 0.25)))
    grids4 = list(itertools.product(levels, repeat=6))
    for probs in (rng.sample(grids4, 300) if quick else grids4):
        ths = rng.choice([["p", [256, 512, 768]], ["p", [768, 512, 256]], ["p", [512, 256, 1024, 768]], ["w", [0, 1]],
                          ["p", [640, 384]]])
        R.add(X.grid_case(rng, 4, probs, ths, "sqlite" if rng.random() < 0.8 else "duckdb", stats=(rng.random() < 0.2)))
    # ---- seeded families ------------------------------------------------------------------
    rounds = 6 if quick else 30
    for rd in range(rounds):
        for fi, fam in enumerate(X5.FAMILIES):
            backend = "duckdb" if (fi + rd) % 2 == 0 else "sqlite"
            idkind = ["int", "str", "link"][(fi + rd) % 3]
            n = rng.choice([6, 10, 16, 25, 40]) if quick else rng.choice([6, 10, 16, 25, 40, 80, 150])
            R.add(X.build_case(rng, fam, n, backend, idkind, stats=(rng.random() < 0.35)))
    # ---- NULL probabilities with threshold lists containing 0 ----------------------------------------
    for i in range(40 if quick else 300):
        fam = X5.FAMILIES[(3 * i + 2) % len(X5.FAMILIES)]
        R.add(X.build_null_case(rng, fam, rng.choice([3, 4, 6, 9]), "duckdb" if i % 2 == 0 else "sqlite",
                                ["int", "str"][(i // 2) % 2], stats=(rng.random() < 0.3)))
    # ---- sequences of calls on one db_api (results must not depend on what ran before) ---------
    kinds = ["graphs", "graphs", "thresholds", "modes", "mixed"]
    for i in range(30 if quick else 200):
        R.add_sequence(X.gen_sequence(rng, "duckdb" if i % 2 == 0 else "sqlite", kinds[i % len(kinds)], sdf=(i % 3 == 2)))
    # ---- fractional match weights, edges exactly on the converted threshold ------------------------
    for i in range(48 if quick else 200):
        fam = X5.FAMILIES[i % len(X5.FAMILIES)]
        backend = "duckdb" if i % 2 == 0 else "sqlite"
        idkind = ["int", "str"][(i // 2) % 2]
        n = rng.choice([4, 6, 9, 14]) if quick else rng.choice([4, 6, 9, 14, 30])
        R.add(X.build_wf_case(rng, fam, n, backend, idkind, stats=(rng.random() < 0.3)))
    if not quick:
        for fam, n in [("cliques_bridges", 300), ("forest_small", 500), ("random_sparse", 400), ("path_random", 200)]:
            R.add(X.build_case(rng, fam, n, "duckdb", "int", stats=False))


def witness_negative_weight(ctx: Ctx):
    """Known-finding class kept out of the ordinary stream: a negative match weight in the detailed
    output becomes the column alias cluster_mw_-1, which is not valid SQL."""
    import logging
    logging.getLogger("sqlglot").setLevel(logging.CRITICAL)
    cases = [
        {"entry": "standalone", "backend": "duckdb", "idkind": "int", "nodes": [0, 1, 2],
         "edges": [[0, 1, 512], [1, 2, 256]], "family": "witness", "thresholds": ["w", [-1, 1]], "stats": False},
        {"entry": "standalone", "backend": "sqlite", "idkind": "int", "nodes": [2, 0, 1, 3],
         "edges": [[0, 1, 128], [2, 1, 384], [3, 2, 896]], "family": "witness", "thresholds": ["w", [2, -3, 0, -1]], "stats": False},
        {"entry": "standalone", "backend": "duckdb", "idkind": "str", "nodes": ["b", "a", "c"],
         "edges": [["c", "a", 256], ["b", "c", 640]], "family": "witness", "thresholds": ["w", [-2]], "stats": False},
    ]
    ok = True
    for case in cases:
        ok1, info = X.property_holds(case)
        if not ok1 and ok:
            ctx.violation("match_weight_thresholds containing a negative weight (unsorted list): the detailed output raises or a "
                          "column cluster_mw_<w> does not hold the clustering at weight w (see `implementation`)",
                          {"case": case, "implementation": info,
                           "specification": "one column per threshold with the component minima at 2^w/(1+2^w)"},
                          X.features_of(case))
        ok = ok and ok1
    ctx.expect_known(KNOWN_NEG_WEIGHT, not ok, "negative match weights now produce a detailed table")
    return not ok


def run(ctx: Ctx):
    ctx.cov["rule"] = (
        "exhaustive grids: every assignment of {absent, 0.25, 0.5, 0.75} to the pairs of 3 labelled nodes x threshold "
        "lists (sorted, unsorted, duplicates, off-grid, 0 and 1, weights), a seeded sample (thorough: all 4096) of the "
        "4-node grids; seeded C05 graph families with probabilities on an eighths grid and threshold lists of length "
        "1..6 (values equal to edge probabilities, 0, 1, random k/1024, integer match weights), detailed and summary "
        "output, DuckDB and SQLite, integer/string/composite-string ids; sequences of 2-3 calls on one db_api (different graphs "
        "with identical thresholds, same graph with different thresholds, alternating output modes; raw pandas and "
        "SplinkDataFrame inputs), every call checked. Non-trivial: >=3 nodes and at least two "
        "different partitions among the requested thresholds; distinct by (backend, ids, edge rows, thresholds, output).")
    ctx.trusted += [
        "harness/c05_x.py id -> rank map; each requested threshold is read from the detailed-output column carrying its "
        "name (cluster_p_<p>, cluster_mw_<w as requested>), summary rows by ascending threshold_match_probability",
        "modelled not verified: SQL LEFT JOIN / GROUP BY HAVING coalesce(min) / NOT IN / IN semantics (DESIGN 3b); "
        "single-threshold clustering inside the routine is replaced by its C05 spec (C05 checks that link)",
        "fractional match weights: the model's threshold is the exact rational the engine compares against when given "
        "the probability the implementation's single-threshold conversion computes (probed on the 7 doubles around it on "
        "an independent connection: DuckDB reads the literal as DECIMAL and can sit one ulp off); avg_cluster_size within 1e-9",
    ]
    ok = ctx.proof_stage("Properties/C11.v")
    if not ok:
        ctx.violation("theorems of Properties/C11.v no longer check", {"broken": "Properties/C11.v"}, found_input=False)
    ctx.cov["modelled_sources"] = {p: git_blob(REPO / p) for p in
                                   ["splink/internals/clustering.py", "splink/internals/misc.py"]}
    R = Runner(ctx)
    try:
        if ctx.replay:
            rp = json.loads(open(ctx.replay).read())
            if rp.get("case"):
                R.add(rp["case"])
            else:
                generate(ctx, R)
        else:
            generate(ctx, R)
            witness_negative_weight(ctx)
    except StopGeneration:
        ctx.log("generation stopped: the implementation does not terminate on the inputs tried")
    for case, why in sorted(R.nonterm, key=lambda cw: len(cw[0]["nodes"]))[:3]:
        ctx.violation("multi-threshold clustering does not terminate: " + why,
                      {"case": case, "implementation": why,
                       "specification": "every inner clustering needs at most |V|^2+1 passes (C05_terminates)"},
                      dict(X.features_of(case), non_termination=True))
    ctx.obligation("every call terminated within the proved pass bound and the time limit", not R.nonterm)
    if X5.CONVERSION_BAD:
        ctx.violation("threshold_args_to_match_prob(None, w) is not within 2 ulp of 2^w/(1+2^w)",
                      {"case": X5.CONVERSION_BAD[0], "all": X5.CONVERSION_BAD[:10]}, {"weight_conversion": True})
    ctx.obligation(f"match-weight conversion within 2 ulp of 2^w/(1+2^w) ({len(X5.CONVERSION_CHECKED)} weights)",
                   not X5.CONVERSION_BAD)
    ctx.log(f"generated {len(R.meta)} cases ({R.engine_s:.1f}s in the engines); evaluating the model in Coq")
    for case, info in R.direct_fail[:3]:
        small = X.shrink(case)
        ok_, info2 = X.property_holds(small)
        if ok_:
            small, info2 = case, info
        ctx.violation("implementation raised or did not return one row per node / one column (row) per threshold",
                      {"case": small, "implementation": info2}, X.features_of(small))
    for case, info in R.single_fail[:3]:
        small = X.shrink(case, holds=X.single_vs_multi)
        ok_, info2 = X.single_vs_multi(small)
        if ok_:
            small, info2 = case, info
        ctx.violation("the multi-threshold clusters for a match weight differ from clustering independently at that weight "
                      "(cluster_pairwise_predictions_at_threshold(threshold_match_weight=w)) on the same inputs",
                      {"case": small, "implementation": info2,
                       "specification": "column / summary row of weight w = independent single-threshold run at w",
                       "single_threshold_probabilities": {str(w): repr(X.single_threshold_prob(w)) for w in small["thresholds"][1]}},
                      X.features_of(small))
    ctx.obligation("weight form: multi-threshold = independent single-threshold runs (direct oracle)", not R.single_fail)
    ctx.obligation("implementation output has the expected shape for every case", not R.direct_fail)
    N = len(R.terms)
    S = max(1, min(16, (N + 79) // 80))
    sz = max(1, (N + S - 1) // S)
    order = sorted(range(N), key=lambda i: -R.weight[i])
    slots = [None] * (S * sz)
    for pos, i in enumerate(order):
        slots[(pos % S) * sz + pos // S] = i
    PAD = "(mkD ([], [], [], [], None))"
    bad_slots, errs = ctx.eval_cases("C11_x", X.HEADER, [PAD if i is None else R.terms[i] for i in slots],
                                     "run_any", shard=sz, timeout=1500)
    bad = sorted(slots[j] for j in bad_slots if slots[j] is not None)
    for e in errs:
        ctx.log(e[:1500])
    ctx.obligations += N
    ctx.discharged += (N - len(bad)) if not errs else 0
    ctx.obligation("correspondence X: model evaluated in Coq on every case", not errs)
    ctx.cov["engine_seconds"] = round(R.engine_s, 1)
    if errs:
        ctx.violation("case files could not be evaluated in Coq (correspondence not established)",
                      {"broken": "correspondence X (coqc of generated case shards)", "errors": errs[:3]}, found_input=False)
    found = 0
    for i in bad:
        if found >= 3:
            break
        case = R.meta[i]
        ok_, info = X.property_holds(case)
        if not ok_:
            small = X.shrink(case)
            ok2, info2 = X.property_holds(small)
            if ok2:
                small, info2 = case, info
            ctx.violation("a threshold's clusters (or summary statistics) differ from clustering independently at that threshold",
                          {"case": small, "implementation": info2,
                           "specification": {str(v): X.oracle(small, v) for v, _ in X.distinct_sorted(small)},
                           "original_case_size": [len(case["nodes"]), len(case["edges"])]}, X.features_of(small))
            found += 1
    if bad and not found:
        ctx.violation("implementation and model `multi` disagree although every column satisfies the independent "
                      "single-threshold oracle: the correspondence with Model/MultiThr.v no longer holds",
                      {"broken": "correspondence X (final output)", "example_case": R.meta[bad[0]],
                       "disagreeing_cases": len(bad)}, found_input=False)
