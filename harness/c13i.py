"""Stand-alone wrapper for the C13 identifier layer (not registered): ./check C13i"""
from harness.common import Ctx


def run(ctx: Ctx):
    ctx.cov["rule"] = ("identifier layer of C13: pool of tricky column names x spellings of the training rule; a case is "
                       "non-trivial when both decisions were obtained; distinct by (name, spelling, rule shape)")
    from harness import c13_idents
    c13_idents.run_idents(ctx)
