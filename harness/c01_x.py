"""C01 correspondence: real Splink blocking on DuckDB/SQLite vs the Gallina model `block`
evaluated in Coq on the engine-evaluated per-rule outcome matrix; plus the search that turns
a failed skeleton obligation into a concrete input."""
from __future__ import annotations

import json

import duckdb
import pandas as pd

from harness import splink_util as su
from harness.common import Ctx, coq_list

HEADER = """From Coq Require Import List Bool Arith.
From Splinkv Require Import Base.TV Model.Blocking.
Import ListNotations.
Definition tvn (n : nat) : tv := match n with 0 => F | 1 => T | _ => U end.
(* case: link type code (0 dedupe-like, 1 link_only), number of rows, ranks, dataset ids,
   outcome matrices (one per rule, row-major over l,r), expected bag *)
Definition triple_eqb (a b : nat * (nat * nat)) : bool :=
  Nat.eqb (fst a) (fst b) && Nat.eqb (fst (snd a)) (fst (snd b)) && Nat.eqb (snd (snd a)) (snd (snd b)).
Definition cnt (x : nat * (nat * nat)) l := length (filter (triple_eqb x) l).
Definition bag_eqb (a b : list (nat * (nat * nat))) : bool :=
  forallb (fun x => Nat.eqb (cnt x a) (cnt x b)) (a ++ b).
Definition run_case (c : nat * nat * list nat * list nat * list (list nat) * list (nat * (nat * nat))) : bool :=
  match c with (lt, n, ranks, dss, mats, expd) =>
    let adm := fun l r => Nat.ltb (nth l ranks 0) (nth r ranks 0) &&
                          (match lt with 0 => true | _ => negb (Nat.eqb (nth l dss 0) (nth r dss 0)) end) in
    let rules := map (fun m => fun l r => tvn (nth (l * n + r) m 2)) mats in
    bag_eqb (block adm rules (seq 0 n) (seq 0 n)) expd
  end.
"""

ATOMS_SYM = ["l.a = r.a", "l.b = r.b", "l.c = r.c", "substr(l.a,1,1) = substr(r.a,1,1)"]
ATOMS_ASYM = ["l.a = r.b", "l.b < r.b", "l.c = r.a"]


def gen_rule(rng, allow_asym=True):
    atoms = ATOMS_SYM + (ATOMS_ASYM if allow_asym and rng.random() < 0.3 else [])
    shape = rng.choice(["atom", "atom", "and", "or", "or", "not", "andor"])
    a, b, c = (rng.choice(atoms) for _ in range(3))
    if shape == "atom":
        return a
    if shape == "and":
        return f"{a} AND {b}"
    if shape == "or":
        return f"{a} OR {b}"
    if shape == "not":
        return f"{a} AND NOT ({b})"
    return f"{a} AND {b} OR {c}"


def gen_case(rng, backend):
    lt = rng.choice(["dedupe_only", "link_only", "link_and_dedupe"])
    ntab = 1 if lt == "dedupe_only" else rng.choice([2, 2, 3])
    names = ["ta", "tb", "tc"][:ntab]
    tables = []
    dom = ["x", "y", "xz", None]
    for t in range(ntab):
        n = rng.randint(2, 6 if ntab == 1 else 4)
        ids = rng.sample(range(1, 12), n)  # overlapping ids across tables
        rows = []
        for i in ids:
            arr = rng.choice([None, [], ["u"], ["u", "v"], ["v", "w"], ["w"], ["u", "u"]])
            arr2 = rng.choice([None, [], ["p"], ["p", "q"], ["q", "p"], ["q", "r", "p"], ["r"]])
            rows.append({"unique_id": i, "a": rng.choice(dom), "b": rng.choice(dom), "c": rng.choice(dom), "arr": arr, "arr2": arr2})
        if not any(r["arr"] for r in rows):
            rows[0]["arr"] = ["u", "w"]
        if not any(r["arr2"] for r in rows):
            rows[0]["arr2"] = ["q", "p"]
        if all(r["a"] is None for r in rows):
            rows[0]["a"] = "x"
        tables.append(rows)
    nrules = rng.choice([0, 1, 2, 2, 3, 3, 4])
    rules = []
    for k in range(nrules):
        kind = "plain"
        if backend == "duckdb":
            kind = rng.choice(["plain", "plain", "salted", "exploding"])
        else:  # SQLite has no arrays; salted rules run there too (its random() is an integer)
            kind = rng.choice(["plain", "plain", "salted"])
        if kind == "exploding":
            if rng.random() < 0.35:
                # two exploded arrays: the exploded table must hold the cross product of elements
                txt = rng.choice(["l.arr = r.arr AND l.arr2 = r.arr2", "l.arr2 = r.arr2 AND l.arr = r.arr AND l.b = r.b"])
                rules.append({"blocking_rule": txt, "arrays_to_explode": rng.choice([["arr", "arr2"], ["arr2", "arr"]])})
            elif rng.random() < 0.3:
                rules.append({"blocking_rule": "l.arr2 = r.arr2", "arrays_to_explode": ["arr2"]})
            else:
                txt = rng.choice(["l.arr = r.arr", "l.arr = r.arr AND l.a = r.a", "l.arr = r.arr OR l.b = r.b"])
                rules.append({"blocking_rule": txt, "arrays_to_explode": ["arr"]})
        elif kind == "salted":
            rules.append({"blocking_rule": gen_rule(rng), "salting_partitions": rng.choice([2, 3, 5])})
        else:
            rules.append(gen_rule(rng))
    # a condition may legitimately be listed twice (e.g. once plain, once salted): match keys of
    # the rules after the repetition must still be their list positions
    if len(rules) >= 2 and len(rules) < 4 and rng.random() < 0.25:
        src = rng.randrange(len(rules))
        if not (isinstance(rules[src], dict) and "arrays_to_explode" in rules[src]):
            txt = rule_sql(rules[src])
            dup = {"blocking_rule": txt, "salting_partitions": 2} if rng.random() < 0.5 else txt
            rules.insert(rng.randint(src + 1, len(rules)), dup)
    # the same link job may be presented as ONE pre-concatenated table with a source_dataset column
    one_table = ntab > 1 and rng.random() < 0.2
    return {"link_type": lt, "names": names, "tables": tables, "rules": rules, "backend": backend, "one_table": one_table}


def rule_sql(r):
    return r if isinstance(r, str) else r["blocking_rule"]


def outcome_matrices(case):
    """Evaluate every rule on every ordered pair of concat rows with DuckDB (independent
    connection; for exploding rules: TRUE on some pair of exploded variants)."""
    con = duckdb.connect()
    rows = []
    for name, tab in zip(case["names"], case["tables"]):
        for r in tab:
            rows.append({"__i": len(rows), "source_dataset": name, **r})
    n = len(rows)
    d = pd.DataFrame(rows)
    for col in ("a", "b", "c"):
        d[col] = d[col].astype("string")
    con.register("d0", d)
    con.execute("create table t as select __i, source_dataset, unique_id, cast(a as varchar) a, cast(b as varchar) b, cast(c as varchar) c, cast(arr as varchar[]) arr, cast(arr2 as varchar[]) arr2 from d0")
    mats = []
    for r in case["rules"]:
        sql = rule_sql(r)
        if isinstance(r, dict) and "arrays_to_explode" in r:
            src = "t"
            for col in r["arrays_to_explode"]:
                other = ", ".join(x for x in ("__i", "source_dataset", "unique_id", "a", "b", "c", "arr", "arr2") if x != col)
                src = f"(select {other}, unnest({col}) as {col} from {src})"
            q = f"""with u as (select * from {src})
                    select l.__i, r.__i, max(case when ({sql}) then 1 else 0 end) from u l cross join u r group by 1,2"""
            res = {(a, b): v for a, b, v in con.execute(q).fetchall()}
            m = [res.get((i, j), 0) for i in range(n) for j in range(n)]
        else:
            q = f"select l.__i, r.__i, ({sql}) from t l cross join t r"
            res = {(a, b): v for a, b, v in con.execute(q).fetchall()}
            m = [2 if res[(i, j)] is None else int(bool(res[(i, j)])) for i in range(n) for j in range(n)]
        mats.append(m)
    con.close()
    return rows, mats


def composite_rank(case, rows):
    if case["link_type"] == "dedupe_only":
        keys = [r["unique_id"] for r in rows]
    else:
        keys = [f"{r['source_dataset']}-__-{r['unique_id']}" for r in rows]
    order = sorted(range(len(rows)), key=lambda i: keys[i])
    assert len(set(keys)) == len(keys)
    rank = [0] * len(rows)
    for p, i in enumerate(order):
        rank[i] = p
    return rank


def run_impl(case, entry="predict"):
    import splink.comparison_library as cl
    from splink import SettingsCreator
    tabs = []
    for tab in case["tables"]:
        d = pd.DataFrame(tab)
        for col in ("a", "b", "c"):
            d[col] = d[col].astype("string")
        if case["backend"] == "sqlite":
            d = d.drop(columns=["arr", "arr2"])
        if len(tabs) % 2 == 1:
            d = d[list(d.columns)[::-1]]  # later tables may list their columns in another order
        tabs.append(d)
    if case.get("one_table") and len(tabs) > 1:
        tabs = [pd.concat([d.assign(source_dataset=nm) for d, nm in zip(tabs, case["names"])], ignore_index=True)]
    s = SettingsCreator(link_type=case["link_type"], comparisons=[cl.ExactMatch("a")],
                        blocking_rules_to_generate_predictions=case["rules"],
                        retain_intermediate_calculation_columns=False)
    if entry == "em_block":
        return run_em_block(case, tabs, s)
    lk = su.linker(tabs, s, case["backend"], aliases=case["names"] if len(tabs) > 1 else None)
    out = lk.inference.predict() if entry == "predict" else lk.inference.deterministic_link()
    res = []
    for r in su.records(out):
        sl = r.get("source_dataset_l", case["names"][0])
        sr = r.get("source_dataset_r", case["names"][0])
        res.append((int(r.get("match_key", 0)), (sl, int(r["unique_id_l"])), (sr, int(r["unique_id_r"]))))
    return res


def run_em_block(case, tabs, s):
    """Training block of estimate_parameters_using_expectation_maximisation: capture the
    materialised __splink__blocked_id_pairs table by wrapping the DatabaseAPI."""
    from splink import DuckDBAPI
    from splink.internals.sqlite.database_api import SQLiteAPI
    base = DuckDBAPI if case["backend"] == "duckdb" else SQLiteAPI
    captured = []

    class Cap(base):
        def sql_pipeline_to_splink_dataframe(self, pipeline, use_cache=True):
            sdf = super().sql_pipeline_to_splink_dataframe(pipeline, use_cache)
            if sdf.templated_name == "__splink__blocked_id_pairs":
                captured.append(sdf.as_record_dict())
            return sdf

    api = Cap() if case["backend"] == "duckdb" else Cap(":memory:")
    lk = su.linker(tabs, s, case["backend"], aliases=case["names"] if len(tabs) > 1 else None, api=api)
    training_rule = rule_sql(case["rules"][0])
    if case.get("reuse"):
        # the SAME creator objects are first used at positions 0 and 1 of a rule list by another
        # function, then the second one is used alone as the EM training rule
        from splink import block_on
        from splink.blocking_analysis import cumulative_comparisons_to_be_scored_from_blocking_rules_data
        c1, c2 = block_on(case["reuse"][0]), block_on(case["reuse"][1])
        try:
            if case["reuse"][2] == "analysis":
                cumulative_comparisons_to_be_scored_from_blocking_rules_data(
                    table_or_tables=tabs, blocking_rules=[c1, c2], link_type=case["link_type"],
                    db_api=su.make_api(case["backend"]))
            else:
                lk.training.estimate_probability_two_random_records_match([c1, c2], recall=0.99)
        except Exception:
            pass
        su.quiet()
        captured.clear()
        training_rule = c2
    try:
        lk.training.estimate_parameters_using_expectation_maximisation(training_rule)
    except Exception:
        pass
    su.quiet()
    if not captured:
        raise RuntimeError("EM training did not materialise __splink__blocked_id_pairs")
    res = []
    for r in captured[0]:
        def split(k):
            k = str(k)
            if "-__-" in k:
                a, b = k.split("-__-")
                return (a, int(b))
            return (case["names"][0], int(k))
        res.append((int(r["match_key"]), split(r["join_key_l"]), split(r["join_key_r"])))
    return res


def case_term(case, rows, mats, impl):
    idx = {(r["source_dataset"], r["unique_id"]): r["__i"] for r in rows}
    rank = composite_rank(case, rows)
    names = case["names"]
    dss = [names.index(r["source_dataset"]) for r in rows]
    lt = 1 if case["link_type"] == "link_only" else 0
    expd = sorted((k, idx[l], idx[r]) for k, l, r in impl)
    n = len(rows)
    t = (f"({lt}, {n}, {coq_list([str(x) for x in rank], 'nat')}, {coq_list([str(x) for x in dss], 'nat')}, "
         f"{coq_list([coq_list([str(x) for x in m], 'nat') for m in mats], '(list nat)')}, "
         f"{coq_list([f'({k}, ({a}, {b}))' for k, a, b in expd], '(nat * (nat * nat))')})")
    return t, expd


def py_model(case, rows, mats):
    """Python transcription of the spec (used only to shrink / describe failures)."""
    rank = composite_rank(case, rows)
    n = len(rows)
    out = []
    nm = len(mats) or 1
    ms = mats or [[1] * (n * n)]
    for i in range(n):
        for j in range(n):
            adm = rank[i] < rank[j] and (case["link_type"] != "link_only" or rows[i]["source_dataset"] != rows[j]["source_dataset"])
            if not adm:
                continue
            for k in range(nm):
                if ms[k][i * n + j] == 1:
                    out.append((k, i, j))
                    break
    return sorted(out)


def nontrivial(mats, n):
    if len(mats) < 2:
        return False
    multi = any(sum(1 for m in mats if m[p] == 1) >= 2 for p in range(n * n))
    nulls = any(2 in m for m in mats)
    return multi and nulls


def features_of(case):
    f = {"link_type": case["link_type"]}
    kinds = []
    for r in case["rules"]:
        if isinstance(r, dict) and "salting_partitions" in r:
            kinds.append("salted")
        elif isinstance(r, dict) and "arrays_to_explode" in r:
            kinds.append("exploding")
        else:
            kinds.append("plain")
    f["one_table"] = bool(case.get("one_table"))
    f["creator_reused"] = bool(case.get("reuse"))
    texts = [rule_sql(r) for r in case["rules"]]
    f["repeated_condition"] = len(set(texts)) < len(texts)
    f["has_salted"] = "salted" in kinds
    f["has_exploding"] = "exploding" in kinds
    # a plain/salted rule mentioning the exploded column listed before an exploding rule (7.13)
    f["array_rule_before_exploding"] = any(
        kinds[j] != "exploding" and "arr" in rule_sql(case["rules"][j])  # matches arr and arr2
        for i, k in enumerate(kinds) if k == "exploding" for j in range(i))
    import sqlglot
    import sqlglot.expressions as E
    f["salted_top_level_or"] = any(
        k == "salted" and isinstance(sqlglot.parse_one(rule_sql(r)), E.Or) for k, r in zip(kinds, case["rules"]))
    return f


def shrink(case, fails):
    """Greedy delta debugging over rows and rules; `fails(case)` must stay True."""
    changed = True
    while changed:
        changed = False
        for ti in range(len(case["tables"])):
            for ri in range(len(case["tables"][ti])):
                if len(case["tables"][ti]) <= 1:
                    break
                c2 = json.loads(json.dumps(case))
                del c2["tables"][ti][ri]
                try:
                    if fails(c2):
                        case, changed = c2, True
                        break
                except Exception:
                    pass
            if changed:
                break
        if changed:
            continue
        for k in range(len(case["rules"])):
            c2 = json.loads(json.dumps(case))
            del c2["rules"][k]
            try:
                if fails(c2):
                    case, changed = c2, True
                    break
            except Exception:
                pass
    return case


def disagrees(case, entry="predict"):
    rows, mats = outcome_matrices(case)
    impl = run_impl(case, entry)
    idx = {(r["source_dataset"], r["unique_id"]): r["__i"] for r in rows}
    got = sorted((k, idx[l], idx[r]) for k, l, r in impl)
    return got != py_model(case, rows, mats)


def correspondence(ctx: Ctx, extra_cases=None):
    ncases = 120 if ctx.quick else 1500
    terms, cases = [], []
    raised_seen: set = set()
    plan = [("duckdb", ncases), ("sqlite", ncases // 4)]
    for backend, cnt in plan:
        for i in range(cnt):
            case = gen_case(ctx.rng, backend)
            f = features_of(case)
            if f["array_rule_before_exploding"]:
                continue
            entry = "predict" if i % 3 else "deterministic_link"
            if i % 5 == 4 and case["rules"] and isinstance(case["rules"][0], str):
                # the training block of an EM session blocks on one rule
                entry = "em_block"
                case = dict(case, rules=[case["rules"][0]])
            elif i % 10 == 7:
                # ... also when its creator object was used before inside a rule list elsewhere
                x, y = ctx.rng.sample(["a", "b", "c"], 2)
                entry = "em_block"
                case = dict(case, rules=[f'l."{y}" = r."{y}"'], one_table=False,
                            reuse=[x, y, ctx.rng.choice(["analysis", "prior"])])
            rows, mats = outcome_matrices(case)
            try:
                impl = run_impl(case, entry)
            except Exception as e:  # every generated input has a defined answer
                su.quiet()
                key = f"raises:{type(e).__name__}:{entry}"
                if key not in raised_seen:
                    raised_seen.add(key)
                    ctx.violation(f"implementation raises {type(e).__name__} on an input with a defined answer (entry {entry}, backend {backend}): {str(e)[-300:]}",
                                  {"case": case, "entry": entry, "specification": py_model(case, rows, mats)},
                                  dict(features_of(case), raises=type(e).__name__))
                continue
            t, expd = case_term(case, rows, mats, impl)
            terms.append(t)
            cases.append((case, entry))
            ctx.count_case((json.dumps(case, sort_keys=True, default=str)), nontrivial(mats, len(rows)),
                           {"link_type": case["link_type"], "rules": case["rules"], "rows": len(rows), "pairs": len(expd), "backend": backend, "entry": entry})
            ctx.hist("backend", backend)
            ctx.hist("n_rules", len(case["rules"]))
            ctx.hist("link_type", case["link_type"])
            ctx.hist("entry", entry)
            ctx.hist("one_table_formulation", bool(case.get("one_table")))
            ctx.hist("creator_reused_before_em", bool(case.get("reuse")))
            for r in case["rules"]:
                ctx.hist("rule_kind", "salted" if isinstance(r, dict) and "salting_partitions" in r else "exploding" if isinstance(r, dict) else "plain")
    bad, errs = ctx.eval_cases("C01_x", HEADER, terms, "run_case", shard=80)
    for e in errs:
        ctx.obligation("correspondence shard evaluation", False, e)
    ctx.obligation(f"correspondence impl = Gallina block on {len(terms)} cases", not bad and not errs)
    seen = set()
    for i in bad:
        case, entry = cases[i]
        try:
            small = shrink(case, lambda c: disagrees(c, entry))
        except Exception:
            small = case
        f = features_of(small)
        key = json.dumps(f, sort_keys=True)
        if key in seen:
            continue
        seen.add(key)
        rows, mats = outcome_matrices(small)
        impl = run_impl(small, entry)
        idx = {(r["source_dataset"], r["unique_id"]): r["__i"] for r in rows}
        ctx.violation(
            f"blocking output differs from specification (entry {entry}, backend {small['backend']})",
            {"case": small, "entry": entry, "implementation": sorted((k, idx[l], idx[r]) for k, l, r in impl),
             "specification": py_model(small, rows, mats), "rows": rows}, f)
    if errs and not bad:
        ctx.violation("correspondence C01_x could not be evaluated", {"errors": errs}, found_input=False)
    known_witnesses(ctx)


def known_witnesses(ctx: Ctx):
    """Replay the witnesses of recorded findings against the real code on every run."""
    # KF-C01-exploding-preceded (DESIGN 7.13)
    arrs = [["a", "b"], ["b", "c"], ["a", "b"]]
    case = {"link_type": "dedupe_only", "names": ["ta"], "backend": "duckdb",
            "tables": [[{"unique_id": i + 1, "a": None, "b": None, "c": None, "arr": arrs[i], "arr2": ["p"]} for i in range(3)]],
            "rules": ["l.arr = r.arr", {"blocking_rule": "l.arr = r.arr", "arrays_to_explode": ["arr"]}]}
    rows, mats = outcome_matrices(case)
    impl = run_impl(case, "predict")
    idx = {(r["source_dataset"], r["unique_id"]): r["__i"] for r in rows}
    got = sorted((k, idx[l], idx[r]) for k, l, r in impl)
    spec = py_model(case, rows, mats)
    ctx.cov["evaluations"] += 1
    if got != spec:
        ctx.violation("plain rule on an array column listed before an exploding rule on that column loses pairs",
                      {"case": case, "implementation": got, "specification": spec}, features_of(case))
    else:
        ctx.expect_known("KF-C01-exploding-preceded", False, "witness now matches the specification")


# -----------------------------------------------------------------------------------------
def realise(d, cex):
    """Turn a failing skeleton valuation into concrete tables+rules (rules l.pK = r.pK with
    NULLs realising the outcome vector) and run the real predict on it."""
    n = len(d["kinds"])
    lt = d["link_type"] if d["link_type"] != "two_dataset_link_only" else "link_only"
    atoms = cex["atoms"] + ["F"] * (2 * n - len(cex["atoms"]))

    def vals(o):
        return {"T": ("1", "1"), "F": ("1", "2"), "U": (None, "1")}[o]
    l = {"unique_id": 1}
    r = {"unique_id": 2}
    for k in range(n):
        for j, nm in enumerate((f"p{k}", f"q{k}")):
            a, b = vals(atoms[2 * k + j])
            if d["kinds"][k] == "X" and j == 0:
                a, b = ([a] if a is not None else None), [b]
            l[nm], r[nm] = a, b
    rules = []
    for k, (kind, shape) in enumerate(zip(d["kinds"], d["shapes"])):
        from translators.c01_skeleton import rule_text
        txt = rule_text(k, shape)
        if kind == "P":
            rules.append(txt)
        elif kind.startswith("S"):
            rules.append({"blocking_rule": txt, "salting_partitions": int(kind[1:])})
        else:
            rules.append({"blocking_rule": txt, "arrays_to_explode": [f"p{k}"]})
    return lt, l, r, rules


def report_skeleton_failures(ctx: Ctx, failing, cex):
    """For each failed skeleton obligation: realise the counterexample valuation on the real
    code; report with the concrete input when the real output is wrong, otherwise report the
    broken obligation with no-failing-input-found."""
    import splink.comparison_library as cl
    from splink import SettingsCreator
    groups: dict[str, list] = {}
    for d, cx in zip(failing, cex + [None] * len(failing)):
        feats = {"skeleton": True, "kinds_set": sorted(set(k[0] for k in d["kinds"])),
                 "salted_top_level_or": any(k.startswith("S") and s == "or" for k, s in zip(d["kinds"], d["shapes"]))}
        groups.setdefault(json.dumps(feats, sort_keys=True), []).append((d, cx, feats))
    for key, members in groups.items():
        best = None
        for d, cx, feats in members[:4]:
            found = False
            replay = {"obligation": {k: d[k] for k in ("kinds", "shapes", "link_type", "sk")}, "counterexample_valuation": cx,
                      "failed_obligations_in_group": len(members)}
            if cx is not None:
                try:
                    lt, l, r, rules = realise(d, cx)
                    reps = 24  # many rows so that every salt partition is hit with overwhelming probability
                    if lt == "dedupe_only":
                        tabs = [pd.DataFrame([dict(l, unique_id=2 * i + 1) for i in range(reps)] + [dict(r, unique_id=2 * i + 2) for i in range(reps)])]
                        names = None
                    else:
                        tabs = [pd.DataFrame([dict(l, unique_id=i) for i in range(reps)]), pd.DataFrame([dict(r, unique_id=i) for i in range(reps)])]
                        names = ["ta", "tb"]
                    s = SettingsCreator(link_type=lt, comparisons=[cl.ExactMatch("p0")], blocking_rules_to_generate_predictions=rules)
                    lk = su.linker(tabs, s, "duckdb", aliases=names)
                    out = su.records(lk.inference.predict())
                    pairs = [(x.get("source_dataset_l"), x["unique_id_l"], x.get("source_dataset_r"), x["unique_id_r"]) for x in out]
                    dup = len(pairs) - len(set(pairs))
                    replay.update({"tables": [t.to_dict("records") for t in tabs], "rules": rules, "link_type": lt,
                                   "rows_returned": len(pairs), "distinct_pairs": len(set(pairs))})
                    if dup > 0:
                        found = True
                        replay["failure"] = f"{dup} duplicate pairs in predict() output"
                    else:
                        replay["note"] = "no duplicate pairs on the realised input"
                except Exception as e:  # realisation failed: still a broken obligation
                    replay["realise_error"] = repr(e)
            if best is None or found:
                best = (d, replay, feats, found)
            if found:
                break
        d, replay, feats, found = best
        ctx.violation(f"skeleton obligation fails for kinds={d['kinds']} shapes={d['shapes']} link_type={d['link_type']} (+{len(members) - 1} more of this class)",
                      replay, feats, found_input=found)
    for u in getattr(ctx, "untranslatable", [])[:3]:
        ctx.violation("blocking SQL no longer matches any shape the translator understands: " + u["why"],
                      {"obligation": u}, {"untranslatable": True}, found_input=False)
