"""C09 correspondence and replay of failed obligations on the real Splink.

report_pipeline_failures : dedicated boundary-value witnesses (tf weight 0, m/u 0, custom and
    library comparison descriptions) run on the real code on every run; every failing class
    assignment of a failed pipeline_ok obligation is concretised and replayed on the real code.
correspondence : seeded models x training histories; save_model_to_json -> JSON text -> new
    Linker (same backend; SQLite <-> DuckDB for portable models); predict() row-wise, structural
    comparison of second-generation JSON, structure of the reloaded Settings tree, and the
    Gallina save / load / wfb evaluated inside Coq on the real records vs the real JSON.
"""
from __future__ import annotations

import copy
import json
import math
import os
import tempfile
import time
from fractions import Fraction

import pandas as pd

from harness import splink_util as su
from harness.common import Ctx, coq_list
from translators.c09_symexec import coq_str, py_to_val

TOL = 1e-9


# ------------------------------------------------------------------------- data
FIRST = ["amy", "amie", "bob", "rob", "cat", "kat", "dan", None]
SUR = ["smith", "smyth", "jones", "jonas", "khan", "kahn", None]
CITY = ["leeds", "york", "bath", "lees"]


def make_tables(rng, link_type, uid="unique_id", with_arr=False, n=None):
    ntab = 1 if link_type == "dedupe_only" else 2
    tabs = []
    for t in range(ntab):
        m = n or (18 if ntab == 1 else 10)
        rows = []
        for i in range(m):
            r = {uid: i + 1, "first_name": rng.choice(FIRST), "surname": rng.choice(SUR),
                 "city": rng.choice(CITY), "age": str(rng.choice([30, 31, 40])), "cluster": "k%d" % rng.choice([1, 2, 3, 4])}
            if with_arr:
                r["arr"] = rng.choice([["u"], ["u", "v"], ["v", "w"], ["w"]])
            rows.append(r)
        # make sure every value class occurs
        rows[0]["first_name"], rows[1]["first_name"] = "amy", "amy"
        rows[0]["surname"], rows[1]["surname"] = "smith", "smyth"
        rows[2]["first_name"], rows[2]["surname"] = None, "jones"
        d = pd.DataFrame(rows)
        for c in ("first_name", "surname", "city", "age", "cluster"):
            d[c] = d[c].astype("string")
        tabs.append(d)
    return tabs


def linker_for(tabs, settings, backend):
    if backend == "sqlite":
        tabs = [t.drop(columns=[c for c in t.columns if c == "arr"]) for t in tabs]
    lk = su.linker(tabs, settings, backend, aliases=["ta", "tb"][:len(tabs)] if len(tabs) > 1 else None)
    return lk


def predict_rows(lk, uid="unique_id"):
    out = lk.inference.predict()
    su.quiet()
    rows = {}
    for r in su.records(out):
        key = (r.get("source_dataset_l"), r[f"{uid}_l"], r.get("source_dataset_r"), r[f"{uid}_r"])
        rows[key] = r
    return rows


def canon(v):
    if isinstance(v, float) and math.isnan(v):
        return None
    return v


def diff_predictions(a, b):
    """row-wise comparison; returns list of differences"""
    out = []
    if set(a) != set(b):
        out.append({"rows_only_in_memory": [list(k) for k in sorted(set(a) - set(b), key=str)][:3],
                    "rows_only_reloaded": [list(k) for k in sorted(set(b) - set(a), key=str)][:3]})
        return out
    for k in a:
        ra, rb = a[k], b[k]
        if set(ra) != set(rb):
            out.append({"pair": list(k), "columns_differ": sorted(set(ra) ^ set(rb))})
            break
        for c in ra:
            va, vb = canon(ra[c]), canon(rb[c])
            if isinstance(va, float) and isinstance(vb, float):
                if va == vb:
                    continue
                if math.isinf(va) or math.isinf(vb) or abs(va - vb) > TOL * max(1.0, abs(va)):
                    out.append({"pair": list(k), "column": c, "in_memory": va, "reloaded": vb})
            elif va != vb:
                out.append({"pair": list(k), "column": c, "in_memory": va, "reloaded": vb})
        if len(out) >= 3:
            break
    return out


def save_and_reload(lk, tabs, backend, route="path", path=None):
    """save through JSON text; returns (first generation dict, reloaded linker).  With `path` the same
    file is (over)written at every call, as a user who keeps saving a model under one name does."""
    with tempfile.TemporaryDirectory(prefix="c09_", dir="/var/tmp") as td:
        path = path or os.path.join(td, "model.json")
        d1 = lk.misc.save_model_to_json(path, overwrite=True)
        text = open(path, encoding="utf-8").read()
        d1_text = json.loads(text)
        if route == "path":
            lk2 = linker_for(tabs, path, backend)
        else:
            lk2 = linker_for(tabs, json.loads(text), backend)
    return d1, d1_text, lk2


def level_layout(settings_obj):
    return [[(lv.sql_condition, lv.comparison_vector_value, bool(lv.is_null_level)) for lv in c.comparison_levels]
            for c in settings_obj.comparisons]


def overwrite_witness():
    """the file route: save, change the model, save again to the SAME path with overwrite=True, load by path"""
    import splink.comparison_library as cl
    tabs, lk = tiny_linker([cl.ExactMatch("first_name"), cl.LevenshteinAtThresholds("surname", 1)])
    got = {}
    with tempfile.TemporaryDirectory(prefix="c09_", dir="/var/tmp") as td:
        path = os.path.join(td, "model.json")
        d0 = json.loads(json.dumps(lk.misc.save_model_to_json(path)))
        got["first_save_written"] = os.path.isfile(path) and json.loads(open(path).read()) == d0
        try:
            lk.misc.save_model_to_json(path)          # exists, overwrite=False: must refuse and leave the file
            got["refuses_without_overwrite"] = False
        except ValueError:
            got["refuses_without_overwrite"] = json.loads(open(path).read()) == d0
        got["training"] = [apply_training(lk, "u", None)]
        lk._settings_obj._probability_two_random_records_match = 0.03125
        d1 = json.loads(json.dumps(lk.misc.save_model_to_json(path, overwrite=True)))
        on_disk = json.loads(open(path).read())
        got["model_changed"] = d1 != d0
        got["file_is_second_save"] = on_disk == d1
        got["file_still_first_save"] = on_disk == d0
        lk2 = linker_for(tabs, path, "duckdb")
    got["prior_live"] = lk._settings_obj._probability_two_random_records_match
    got["prior_reloaded"] = lk2._settings_obj._probability_two_random_records_match
    diffs = diff_predictions(predict_rows(lk), predict_rows(lk2))
    if diffs:
        got["prediction_differences"] = diffs
    ok = got["first_save_written"] and got["refuses_without_overwrite"] and got["model_changed"] \
        and got["file_is_second_save"] and got["prior_live"] == got["prior_reloaded"] and not diffs
    return ok, got, {"steps": ["save(path)", "save(path) must raise", "estimate_u + set prior 1/32", "save(path, overwrite=True)",
                               "Linker(df, path)"]}


def null_position_witness(position):
    """a comparison whose null level is not the first level (or absent): order of levels, comparison vector
    values and gammas must be the same in the reloaded model"""
    null = {"sql_condition": "first_name_l IS NULL OR first_name_r IS NULL", "label_for_charts": "null", "is_null_level": True}
    exact = {"sql_condition": "first_name_l = first_name_r", "label_for_charts": "exact", "m_probability": 0.75, "u_probability": 0.125}
    fuzzy = {"sql_condition": "substr(first_name_l, 1, 1) = substr(first_name_r, 1, 1)", "label_for_charts": "initial",
             "m_probability": 0.1875, "u_probability": 0.25}
    other = {"sql_condition": "ELSE", "label_for_charts": "else", "m_probability": 0.0625, "u_probability": 0.625}
    levels = {"first": [null, exact, fuzzy, other], "second": [exact, null, fuzzy, other], "before_else": [exact, fuzzy, null, other],
              "absent": [exact, fuzzy, other]}[position]
    comp = {"output_column_name": "first_name", "comparison_levels": levels}
    tabs, lk = tiny_linker([comp, {"output_column_name": "city", "comparison_levels": [
        {"sql_condition": "city_l IS NULL OR city_r IS NULL", "label_for_charts": "n", "is_null_level": True},
        {"sql_condition": "city_l = city_r", "label_for_charts": "e"},
        {"sql_condition": "ELSE", "label_for_charts": "o"}]}], brs=["l.surname = r.surname", "l.city = r.city"])
    live = level_layout(lk._settings_obj)
    p1 = predict_rows(lk)
    d1, d1_text, lk2 = save_and_reload(lk, tabs, "duckdb")
    got = {"live": live, "json": [[lv["sql_condition"] for lv in c["comparison_levels"]] for c in d1_text["comparisons"]],
           "reloaded": level_layout(lk2._settings_obj)}
    diffs = diff_predictions(p1, predict_rows(lk2))
    if diffs:
        got["prediction_differences"] = diffs
    ok = [[list(x) for x in c] for c in got["live"]] == [[list(x) for x in c] for c in got["reloaded"]] \
        and got["json"] == [[x[0] for x in c] for c in live] and not diffs
    return ok, got, {"comparison": comp, "null_level_position": position}



def getpath(obj, path):
    for p in path.split("."):
        obj = getattr(obj, p)
    return obj


def strip_descriptions(d):
    d = copy.deepcopy(d)
    for c in d.get("comparisons", []):
        c.pop("comparison_description", None)
    return d


# ------------------------------------------------------------------------- boundary witnesses
def tiny_linker(comparisons, brs=None, backend="duckdb", **kw):
    import random
    tabs = make_tables(random.Random(5), "dedupe_only", n=8)
    s = {"link_type": "dedupe_only", "comparisons": comparisons,
         "blocking_rules_to_generate_predictions": brs or ["l.city = r.city"], **kw}
    return tabs, linker_for(tabs, s, backend)


def level_witness(field, value, extra=None):
    """a level dict with `field`=value: does the value survive construction, save and reload?"""
    lvl = {"sql_condition": "first_name_l = first_name_r", "label_for_charts": "exact first name",
           "m_probability": 0.9, "u_probability": 0.1}
    lvl.update(extra or {})
    lvl[field] = value
    comp = {"output_column_name": "first_name", "comparison_levels": [
        {"sql_condition": "first_name_l IS NULL OR first_name_r IS NULL", "label_for_charts": "null", "is_null_level": True},
        lvl,
        {"sql_condition": "ELSE", "label_for_charts": "else", "m_probability": 0.1, "u_probability": 0.9}]}
    tabs, lk = tiny_linker([comp])
    attr = "_" + field
    got = {"supplied": value}
    got["in_memory"] = getattr(lk._settings_obj.comparisons[0].comparison_levels[1], attr)
    d1, d1_text, lk2 = save_and_reload(lk, tabs, "duckdb")
    got["json"] = d1_text["comparisons"][0]["comparison_levels"][1].get(field, "<absent>")
    got["reloaded"] = getattr(lk2._settings_obj.comparisons[0].comparison_levels[1], attr)
    ok = all(same_value(got[k], value) for k in ("in_memory", "json", "reloaded"))
    return ok, got, lvl


def same_value(a, b):
    if isinstance(a, bool) or isinstance(b, bool):
        return isinstance(a, bool) and isinstance(b, bool) and a == b
    if isinstance(a, str) or isinstance(b, str) or a is None or b is None:
        return type(a) is type(b) and a == b
    return a == b


DESCRIPTION_KINDS = ["dict", "creator", "library", "dict_equals_name", "creator_equals_name", "dict_class_name",
                     "dict_empty", "dict_absent", "creator_equals_level_label"]


def description_witness(kind, description="where they live", name="city"):
    """a comparison description through construction, save, reload and second save.  Boundary kinds: the
    description equals the output column name, equals the creator's class name, is empty, is absent."""
    import splink.comparison_level_library as cll
    import splink.comparison_library as cl
    levels = [{"sql_condition": "city_l IS NULL OR city_r IS NULL", "label_for_charts": "null", "is_null_level": True},
              {"sql_condition": "city_l = city_r", "label_for_charts": "exact"},
              {"sql_condition": "ELSE", "label_for_charts": "else"}]
    creators = lambda: [cll.NullLevel("city"), cll.ExactMatchLevel("city"), cll.ElseLevel()]   # noqa: E731
    want = description
    if kind == "dict":
        comp = {"output_column_name": name, "comparison_description": description, "comparison_levels": levels}
    elif kind == "creator":
        comp = cl.CustomComparison(output_column_name=name, comparison_description=description, comparison_levels=creators())
    elif kind == "library":
        comp, want = cl.ExactMatch("city"), None     # whatever the in-memory model says must survive the reload
    elif kind == "dict_equals_name":
        comp, want = {"output_column_name": name, "comparison_description": name, "comparison_levels": levels}, name
    elif kind == "creator_equals_name":
        comp = cl.CustomComparison(output_column_name=name, comparison_description=name, comparison_levels=creators())
        want = name
    elif kind == "dict_class_name":
        comp = {"output_column_name": name, "comparison_description": "CustomComparison", "comparison_levels": levels}
        want = "CustomComparison"
    elif kind == "creator_equals_level_label":
        comp = cl.CustomComparison(output_column_name=name, comparison_description="Exact match on city", comparison_levels=creators())
        want = "Exact match on city"
    elif kind == "dict_empty":
        # an empty description is "no description": what the in-memory model shows instead must survive
        comp, want = {"output_column_name": name, "comparison_description": "", "comparison_levels": levels}, None
    elif kind == "dict_absent":
        comp, want = {"output_column_name": name, "comparison_levels": levels}, None
    else:
        raise ValueError(kind)
    tabs, lk = tiny_linker([comp])
    got = {"supplied": want, "in_memory": lk._settings_obj.comparisons[0].comparison_description,
           "output_column_name": lk._settings_obj.comparisons[0].output_column_name}
    d1, d1_text, lk2 = save_and_reload(lk, tabs, "duckdb")
    got["json"] = d1_text["comparisons"][0].get("comparison_description", "<absent>")
    got["reloaded"] = lk2._settings_obj.comparisons[0].comparison_description
    d2 = lk2.misc.save_model_to_json()
    got["second_generation_json"] = d2["comparisons"][0].get("comparison_description", "<absent>")
    got["second_generation_equal"] = json.loads(json.dumps(d2["comparisons"][0])) == d1_text["comparisons"][0]
    want = got["in_memory"] if want is None else want
    ok = got["in_memory"] == want and got["reloaded"] == want and got["second_generation_equal"] \
        and got["json"] in (want, "<absent>") and got["second_generation_json"] == got["json"]
    return ok, got


TRAINED_HISTORIES = [[("u", None)], [("mlabel", None)], [("em", "city")], [("u", None), ("em", "city")],
                     [("mlabel", None), ("u", None), ("em", "age")]]


def trained_witness(field, value, history, fixed=True):
    """A model whose levels carry explicit m/u values (the middle level with fix_m/fix_u set when
    `fixed`), trained with `history`, then saved and reloaded: the value the in-memory model scores
    with must be the one in the JSON and in the reloaded model, and predictions must agree."""
    import random
    lvl = {"sql_condition": "first_name_l = first_name_r", "label_for_charts": "exact first name",
           "m_probability": 0.8125, "u_probability": 0.0625}
    if fixed:
        lvl["fix_m_probability"] = True
        lvl["fix_u_probability"] = True
    if field is not None:
        lvl[field] = value
    comps = [{"output_column_name": "first_name", "comparison_levels": [
        {"sql_condition": "first_name_l IS NULL OR first_name_r IS NULL", "label_for_charts": "null", "is_null_level": True},
        lvl,
        {"sql_condition": "substr(first_name_l, 1, 1) = substr(first_name_r, 1, 1)", "label_for_charts": "initial",
         "m_probability": 0.125, "u_probability": 0.25, "fix_u_probability": bool(fixed)},
        {"sql_condition": "ELSE", "label_for_charts": "else", "m_probability": 0.0625, "u_probability": 0.6875}]},
        {"output_column_name": "surname", "comparison_levels": [
            {"sql_condition": "surname_l IS NULL OR surname_r IS NULL", "label_for_charts": "null", "is_null_level": True},
            {"sql_condition": "surname_l = surname_r", "label_for_charts": "exact", "m_probability": 0.75, "u_probability": 0.125,
             "fix_m_probability": bool(fixed)},
            {"sql_condition": "ELSE", "label_for_charts": "else", "m_probability": 0.25, "u_probability": 0.875}]}]
    tabs = make_tables(random.Random(11), "dedupe_only", n=24)
    s = {"link_type": "dedupe_only", "comparisons": comps, "blocking_rules_to_generate_predictions": ["l.city = r.city"],
         "probability_two_random_records_match": 0.05}
    lk = linker_for(tabs, s, "duckdb")
    done = []
    for op, arg in history:
        done.append((op, arg, apply_training(lk, op, arg)))
    got = {"history": done, "levels": []}
    ok = True
    p1 = predict_rows(lk)
    d1, d1_text, lk2 = save_and_reload(lk, tabs, "duckdb")
    for ci, (c1, c2) in enumerate(zip(lk._settings_obj.comparisons, lk2._settings_obj.comparisons)):
        for li, (l1, l2) in enumerate(zip(c1.comparison_levels, c2.comparison_levels)):
            if l1.is_null_level:
                continue
            js = d1_text["comparisons"][ci]["comparison_levels"][li]
            for f in ("m_probability", "u_probability"):
                mem, rel, j = getattr(l1, f), getattr(l2, f), js.get(f, "<absent>")
                stored = getattr(l1, "_" + f)
                if stored is None:
                    continue
                if not (same_value(mem, rel) and same_value(mem, j)):
                    ok = False
                    got["levels"].append({"comparison": c1.output_column_name, "level": l1.label_for_charts, "field": f,
                                          "fixed": bool(getattr(l1, "_fix_" + f)), "in_memory": mem, "json": j, "reloaded": rel,
                                          "trained_estimates": [r["probability"] for r in getattr(l1, "_trained_" + f[0] + "_probabilities")]})
    diffs = diff_predictions(p1, predict_rows(lk2))
    if diffs:
        ok = False
        got["prediction_differences"] = diffs
    return ok, got, {"settings": s, "history": [list(h) for h in history]}


def unobserved_witness():
    """A level that the EM training pairs never show (never-observed level): the marker must stay in the
    training history / the session's working copy - never in a level of the linker's Settings - and the
    level must score the same (same m / u getters, same predictions) after save and reload."""
    import splink.comparison_library as cl
    from splink import block_on
    from splink.internals.constants import LEVEL_NOT_OBSERVED_TEXT as NOBS
    rows = []
    fn = ["amy", "bob", "cat", "dan"]
    for i in range(16):
        rows.append({"unique_id": i, "first_name": fn[i % 4], "surname": ["aaaa", "zzzz"][(i // 4) % 2], "city": "c%d" % (i % 3)})
    rows.append({"unique_id": 16, "first_name": "eve", "surname": "aaab", "city": "c0"})
    df = pd.DataFrame(rows)
    for c in ("first_name", "surname", "city"):
        df[c] = df[c].astype("string")
    s = {"link_type": "dedupe_only", "comparisons": [cl.LevenshteinAtThresholds("surname", [1]), cl.ExactMatch("city")],
         "blocking_rules_to_generate_predictions": [block_on("city")]}
    lk = linker_for([df], s, "duckdb")
    hist = [("u", None, apply_training(lk, "u", None))]
    try:
        lk.training.estimate_parameters_using_expectation_maximisation(block_on("first_name"))
        hist.append(("em", "first_name", True))
    except Exception as e:
        hist.append(("em", "first_name", repr(e)[:100]))
    su.quiet()
    got = {"history": hist, "marker_in_history": False, "marker_in_level": [], "getter_differences": []}
    for c in lk._settings_obj.comparisons:
        for lv in c.comparison_levels:
            if any(r["probability"] == NOBS for r in lv._trained_m_probabilities + lv._trained_u_probabilities):
                got["marker_in_history"] = True
            for f in ("_m_probability", "_u_probability"):
                if getattr(lv, f) == NOBS:
                    got["marker_in_level"].append([c.output_column_name, lv.label_for_charts, f])
    p1 = predict_rows(lk)
    d1, d1_text, lk2 = save_and_reload(lk, [df], "duckdb")
    for c1, c2 in zip(lk._settings_obj.comparisons, lk2._settings_obj.comparisons):
        for l1, l2 in zip(c1.comparison_levels, c2.comparison_levels):
            if l1.is_null_level:
                continue
            for f in ("m_probability", "u_probability"):
                if getattr(l1, f) != getattr(l2, f):
                    got["getter_differences"].append([c1.output_column_name, l1.label_for_charts, f, getattr(l1, f), getattr(l2, f)])
    diffs = diff_predictions(p1, predict_rows(lk2))
    if diffs:
        got["prediction_differences"] = diffs
    ok = not got["marker_in_level"] and not got["getter_differences"] and not diffs
    return ok, got, {"rows": rows, "settings": "LevenshteinAtThresholds(surname,[1]) + ExactMatch(city); EM blocked on first_name"}


REPORTED: set = set()


def vkey(v):
    if isinstance(v, (int, float)) and not isinstance(v, bool):
        return repr(float(v))
    return repr(v)


def run_witnesses(ctx: Ctx):
    REPORTED.clear()
    flags = {}
    results = {}
    for name, field, value, extra in [
        ("weight0", "tf_adjustment_weight", 0, {"tf_adjustment_column": "first_name"}),
        ("weight0f", "tf_adjustment_weight", 0.0, {"tf_adjustment_column": "first_name"}),
        ("m0", "m_probability", 0.0, None),
        ("u0", "u_probability", 0.0, None),
        ("weight1", "tf_adjustment_weight", 1.0, {"tf_adjustment_column": "first_name"}),
        ("weight_half", "tf_adjustment_weight", 0.5, {"tf_adjustment_column": "first_name"}),
        ("weight_095", "tf_adjustment_weight", 0.95, {"tf_adjustment_column": "first_name"}),
        ("weight_099", "tf_adjustment_weight", 0.99, {"tf_adjustment_column": "first_name"}),
        ("minu", "tf_minimum_u_value", 0.001, {"tf_adjustment_column": "first_name"}),
        ("m1", "m_probability", 1.0, None),
        ("u1", "u_probability", 1.0, None),
        ("fixm", "fix_m_probability", True, None),
        ("fixu", "fix_u_probability", True, None),
        ("disable", "disable_tf_exact_match_detection", True, {"tf_adjustment_column": "first_name"}),
    ]:
        try:
            ok, got, lvl = level_witness(field, value, extra)
        except Exception as e:      # a loud failure is not a silent loss, but it is not a round trip either
            ok, got, lvl = False, {"exception": repr(e)[:300]}, {field: value}
        flags[name] = ok
        results[name] = got
        ctx.count_case(("witness", name), True, None)
        ctx.hist("witness", name + (":ok" if ok else ":lost"))
        if not ok:
            REPORTED.add((field, vkey(value)))
            ctx.violation(
                f"a level option supplied by the user does not survive construction / save / reload: {field}={value!r} -> {got}",
                {"case": {"level": lvl}, "implementation": got,
                 "specification": f"{field} == {value!r} in the in-memory model, the JSON and the reloaded model"},
                {"field": field, "value": value})
    for kind in DESCRIPTION_KINDS:
        try:
            ok, got = description_witness(kind)
        except Exception as e:
            ok, got = False, {"exception": repr(e)[:300]}
        flags["description_" + kind] = ok
        results["description_" + kind] = got
        ctx.count_case(("witness", "description", kind), True, None)
        ctx.hist("witness", "description_" + kind + (":ok" if ok else ":lost"))
        if not ok:
            REPORTED.add(("comparison_description", vkey("<any>")))
            ctx.violation(
                f"comparison description does not survive ({kind}): {got}",
                {"case": {"comparison": kind}, "implementation": got,
                 "specification": "the description of the in-memory comparison (the supplied one when given) is in the JSON, "
                                  "in the reloaded model and in the second-generation JSON"},
                {"field": "comparison_description", "creator": "CustomComparison", "route": kind})
    for k3 in ("dict", "creator", "library"):      # flags used by the generator
        flags.setdefault("description_" + k3, False)
    try:
        ok, got, case = overwrite_witness()
    except Exception as e:
        ok, got, case = False, {"exception": repr(e)[:300]}, {}
    flags["overwrite"] = ok
    ctx.count_case(("witness", "overwrite"), True, None)
    ctx.hist("witness", "overwrite" + (":ok" if ok else ":stale file"))
    if not ok:
        ctx.violation(f"saving a changed model to the same path with overwrite=True and loading it by path does not give the "
                      f"live model: {str(got)[:400]}",
                      {"case": case, "implementation": got,
                       "specification": "the file holds the dictionary returned by the last save; the linker loaded from the path "
                                        "scores like the live one; without overwrite an existing file is refused and left alone"},
                      {"route": "file", "overwrite": True})
    flags["null_position"] = True
    for pos in ("first", "second", "before_else", "absent"):
        try:
            ok, got, case = null_position_witness(pos)
        except Exception as e:
            ok, got, case = False, {"exception": repr(e)[:300]}, {"null_level_position": pos}
        ctx.count_case(("witness", "null position", pos), True, None)
        ctx.hist("witness", f"null_level_{pos}" + (":ok" if ok else ":reordered"))
        if not ok:
            if flags["null_position"]:
                ctx.violation(f"a comparison whose null level is at position '{pos}' reloads with a different level order / "
                              f"comparison vector values / gammas: {str(got)[:400]}",
                              {"case": case, "implementation": got,
                               "specification": "levels in the JSON and in the reloaded comparison are in the in-memory order, with "
                                                "the same comparison vector values; predict() (gamma columns included) agrees"},
                              {"structure": "level_order", "null_level_position": pos})
            flags["null_position"] = False
    try:
        ok, got, case = unobserved_witness()
    except Exception as e:
        ok, got, case = False, {"exception": repr(e)[:300]}, {}
    flags["unobserved_level"] = ok
    flags["unobserved_level_exercised"] = bool(got.get("marker_in_history"))
    ctx.count_case(("witness", "unobserved level"), True, None)
    ctx.hist("witness", "unobserved_level" + (":ok" if ok else ":differs") + ("" if got.get("marker_in_history") else ":marker-not-produced"))
    if not ok:
        ctx.violation(f"a model with a never-observed level does not survive save / reload: {str(got)[:400]}",
                      {"case": case, "implementation": got,
                       "specification": "the never-observed marker never sits in a level of the linker's Settings; m / u getters "
                                        "and predict() agree between the in-memory and the reloaded linker"},
                      {"field": "m_probability", "unobserved_level": True})
    for hi, hist in enumerate(TRAINED_HISTORIES):
        for fixed in (True, False):
            name = ("fixed:" if fixed else "free:") + ",".join(op for op, _ in hist)
            try:
                ok, got, case = trained_witness(None, None, hist, fixed)
            except Exception as e:
                ok, got, case = False, {"exception": repr(e)[:300]}, {"history": hist}
            flags["trained_" + name] = ok
            ctx.count_case(("trained witness", name), True, None)
            ctx.hist("witness", "trained_" + name + (":ok" if ok else ":lost"))
            if not ok:
                bad = (got.get("levels") or [{}])[0]
                fld = bad.get("field", "m_probability")
                key = (fld, "trained")
                if key in REPORTED:
                    continue
                REPORTED.add(key)
                ctx.violation(
                    f"after training ({name}) the saved model does not carry the parameters the in-memory model scores with: "
                    f"{str(got.get('levels', got))[:400]}",
                    {"case": case, "implementation": got,
                     "specification": "m/u of every level in the JSON and in the reloaded model equal the in-memory values; "
                                      "predict() of the reloaded linker equals the in-memory predict()"},
                    {"field": fld, "trained": True, "fixed": bool(bad.get("fixed", fixed))})
    ctx.cov["boundary_witnesses"] = {k: bool(v) for k, v in flags.items()}
    return flags, results


# ------------------------------------------------------------------------- replay of failed obligations
def sample_for(cls, field, kind):
    if cls[0] == "C":
        return cls[1]
    if kind == "num":
        return 0.375
    if kind == "list":
        return ["city"]
    if kind == "bool":
        return True
    return {"sql_condition": "first_name_l = first_name_r", "blocking_rule": "l.city = r.city",
            "tf_adjustment_column": "first_name", "link_type": "dedupe_only",
            "unique_id_column_name": "unique_id"}.get(field, "zq_" + field[:6])


def oracle_level(p, k, sg, kinds):
    rec = {f: sample_for(c, f, kinds.get(f, ("str",))[0]) for f, c in sg.items()}
    extra = {f: v for f, v in rec.items() if f != k and v is not None}
    if k in ("tf_adjustment_weight", "tf_minimum_u_value", "disable_tf_exact_match_detection") \
            and "tf_adjustment_column" not in extra:
        extra["tf_adjustment_column"] = "first_name"
    if rec.get(k) is None:
        return None, {"note": "counterexample assigns None (not supplied) to the target"}, rec
    ok, got, lvl = level_witness(k, rec[k], extra)
    return (not ok), got, lvl


def oracle_comparison(p, k, sg, kinds):
    """Concretise a failing class assignment of a comparison pipeline.  The symbolic classes only say
    "a literal of the tables" or "some other value"; a guard that compares the field with ANOTHER field or
    with a derived default is opaque to them, so the candidates also cover the relational boundary cases:
    the field equal to the other field of the record, to the creator's class name, to a level label."""
    levels = [{"sql_condition": "city_l IS NULL OR city_r IS NULL", "label_for_charts": "null", "is_null_level": True},
              {"sql_condition": "city_l = city_r", "label_for_charts": "exact"},
              {"sql_condition": "ELSE", "label_for_charts": "else"}]
    other = "output_column_name" if k == "comparison_description" else "comparison_description"
    base = {"output_column_name": "city", "comparison_description": "d"}
    cls = sg.get(k, ("G",))
    cands = []
    if cls[0] == "C" and isinstance(cls[1], str) and cls[1]:
        cands.append(("literal of the tables", cls[1]))
    cands += [("distinct value", "zq description" if k == "comparison_description" else "zq_name"),
              (f"equal to {other}", base[other]), ("creator class name", "CustomComparison"),
              ("a level label", "exact")]
    last = None
    for relation, want in cands:
        comp = {**base, "comparison_levels": levels}
        comp[k] = want
        try:
            tabs, lk = tiny_linker([comp])
            got = {"relation": relation, "supplied": want, "in_memory": getattr(lk._settings_obj.comparisons[0], k)}
            d1, d1_text, lk2 = save_and_reload(lk, tabs, "duckdb")
            got["json"] = d1_text["comparisons"][0].get(k, "<absent>")
            got["reloaded"] = getattr(lk2._settings_obj.comparisons[0], k)
            d2 = json.loads(json.dumps(lk2.misc.save_model_to_json()))
            got["second_generation_equal"] = d2["comparisons"][0] == d1_text["comparisons"][0]
        except Exception as e:
            got = {"relation": relation, "supplied": want, "exception": repr(e)[:300]}
            return True, got, comp
        bad = got["in_memory"] != want or got["reloaded"] != want or not got["second_generation_equal"]
        last = (bad, got, comp)
        if bad:
            return last
    return last


SETTINGS_SAMPLES = {
    "probability_two_random_records_match": 0.375, "em_convergence": 0.0375, "max_iterations": 7,
    "retain_matching_columns": False, "retain_intermediate_calculation_columns": True,
    "additional_columns_to_retain": ["age"], "bayes_factor_column_prefix": "b_",
    "term_frequency_adjustment_column_prefix": "t_", "comparison_vector_value_column_prefix": "g_",
    "linker_uid": "abcd1234", "source_dataset_column_name": "sds",
}


def oracle_settings(p, k, sg, kinds):
    import splink.comparison_library as cl
    cls = sg.get(k, ("G",))
    val = cls[1] if cls[0] == "C" else SETTINGS_SAMPLES.get(k)
    if val is None or k in ("link_type", "unique_id_column_name"):
        return None, {"note": f"no concrete sample for settings field {k}"}, {k: val}
    tabs, lk = tiny_linker([cl.ExactMatch("first_name")], **{k: val})
    path = p.paths.get(k)
    got = {"supplied": val, "in_memory": getpath(lk._settings_obj, path) if path else "<no attribute path>"}
    d1, d1_text, lk2 = save_and_reload(lk, tabs, "duckdb")
    got["json"] = d1_text.get(k, "<absent>")
    got["reloaded"] = getpath(lk2._settings_obj, path) if path else "<no attribute path>"
    bad = any(got[x] != val for x in ("in_memory", "json", "reloaded"))
    return bad, got, {k: val}


def oracle_blocking(p, k, sg, kinds):
    import splink.comparison_library as cl
    rule = {"blocking_rule": "l.city = r.city"}
    if "Salted" in p.name:
        rule["salting_partitions"] = 3
    if "Exploding" in p.name:
        rule = {"blocking_rule": "l.arr = r.arr", "arrays_to_explode": ["arr"]}
    import random
    tabs = make_tables(random.Random(7), "dedupe_only", with_arr=True, n=8)
    s = {"link_type": "dedupe_only", "comparisons": [cl.ExactMatch("first_name")],
         "blocking_rules_to_generate_predictions": [rule]}
    lk = linker_for(tabs, s, "duckdb")
    br = lk._settings_obj._blocking_rules_to_generate_predictions[0]
    d1, d1_text, lk2 = save_and_reload(lk, tabs, "duckdb")
    br2 = lk2._settings_obj._blocking_rules_to_generate_predictions[0]
    got = {"in_memory": [type(br).__name__, br.as_dict()], "reloaded": [type(br2).__name__, br2.as_dict()],
           "json": d1_text["blocking_rules_to_generate_predictions"][0]}
    bad = got["in_memory"] != got["reloaded"] or any(rule.get(x) != got["json"].get(x) for x in rule)
    return bad, got, rule


def report_pipeline_failures(ctx: Ctx, pipelines, okd, cexd):
    flags, wres = run_witnesses(ctx)
    explained = {"children_order": "null_position", "save_route": "overwrite"}
    for f in getattr(ctx, "shape_failures", []):
        w = explained.get(f["group"])
        if w is not None and flags.get(w) is False:
            ctx.hist("failed_obligation_replay", f"{f['group']}:concrete input given by the {w} witness")
            continue
        ctx.violation(f"shape obligation failed ({f['group']}): {f['why']}; no concrete failing input found",
                      {"broken": f"shape of the save route: {f['group']}", "why": f["why"]},
                      {"shape": f["group"]}, found_input=False)
    reported = set(REPORTED)
    for p in pipelines:
        if okd.get(p.name, False):
            continue
        cex = cexd.get(p.name, [])
        kinds = {f: (kind, opt, ne) for f, kind, opt, ne in p.fields}
        if not cex:
            ctx.violation(f"obligation pipeline_ok {p.name} failed on the shape checks (duplicate key, key not accepted "
                          f"by the constructor, undeclared field)", {"broken": f"pipeline_ok {p.name}"},
                          {"pipeline": p.name, "shape": True}, found_input=False)
            continue
        groups = {}
        for k, sg in cex:
            tgt_cls = sg.get(k, ("G",))
            groups.setdefault((k, repr(tgt_cls)), (k, sg))
        for (k, _), (k, sg) in groups.items():
            val = sg.get(k, ("G",))
            value = val[1] if val[0] == "C" else "<any>"
            key = (k, vkey(value))
            group = p.name.split("_")[0]
            try:
                if group == "level":
                    bad, got, case = oracle_level(p, k, sg, kinds)
                elif group == "comparison":
                    bad, got, case = oracle_comparison(p, k, sg, kinds)
                elif group == "settings":
                    bad, got, case = oracle_settings(p, k, sg, kinds)
                else:
                    bad, got, case = oracle_blocking(p, k, sg, kinds)
            except Exception as e:
                bad, got, case = True, {"exception": repr(e)[:400]}, {"field": k, "assignment": {f: list(c) for f, c in sg.items()}}
            ctx.hist("failed_obligation_replay", f"{p.name}:{k}:{'confirmed' if bad else 'not-confirmed' if bad is False else 'n/a'}")
            if key in reported:
                continue
            reported.add(key)
            if bad is False and group == "level":
                # the directly concretised level round-trips: look for a training history under which a level
                # carrying this field does not (the failing clause may only matter for trained state)
                if (k, "trained") in reported or any(f == k and v == "trained" for f, v in REPORTED):
                    ctx.hist("failed_obligation_replay", f"{p.name}:{k}:explained by the trained-model witness")
                    continue
                for hist in TRAINED_HISTORIES:
                    for fixed in (True, False):
                        try:
                            okw, gotw, casew = trained_witness(None, None, hist, fixed)
                        except Exception:
                            continue
                        ctx.hist("failed_obligation_search", f"{k}:{','.join(op for op, _ in hist)}:{'ok' if okw else 'fails'}")
                        hit = [x for x in gotw.get("levels", []) if x["field"] == k]
                        if not okw and (hit or "prediction_differences" in gotw):
                            bad, got, case = True, gotw, casew
                            value = "<trained>"
                            key = (k, "trained")
                            break
                    if bad:
                        break
                if bad and key in reported:
                    continue
                if bad:
                    reported.add(key)
            if bad:
                feats = {"field": k, "value": value}
                if group == "comparison":
                    feats = {"field": k, "creator": "CustomComparison"}
                ctx.violation(
                    f"pipeline_ok {p.name} fails for field {k} (class {val}); replayed on the real code: the value is lost: {got}",
                    {"case": case, "implementation": got, "pipeline": p.name,
                     "assignment": {f: list(c) for f, c in sg.items()},
                     "specification": "the supplied value is found in the in-memory model, the JSON and the reloaded model"},
                    feats)
            else:
                ctx.violation(
                    f"obligation pipeline_ok {p.name} fails for field {k} (class {val}) but the concretised input round-trips "
                    f"on the real code ({got}): translator or model needs repair",
                    {"broken": f"pipeline_ok {p.name}", "field": k, "assignment": {f: list(c) for f, c in sg.items()},
                     "implementation": got}, {"pipeline": p.name, "field": k, "unconfirmed": True}, found_input=False)
    return flags


# ------------------------------------------------------------------------- seeded models
def gen_comparison(rng, col, backend_portable, flags, as_dict_route):
    import splink.comparison_level_library as cll
    import splink.comparison_library as cl
    kind = rng.choice(["exact", "exact_tf", "lev", "dict", "dict_tf", "custom"] + ([] if backend_portable else ["jw", "dl"]))
    meta = {"kind": kind, "col": col}
    if kind == "exact":
        return cl.ExactMatch(col), meta
    if kind == "exact_tf":
        return cl.ExactMatch(col).configure(term_frequency_adjustments=True), meta
    if kind == "lev":
        c = cl.LevenshteinAtThresholds(col, rng.choice([[1], [1, 2], 2]))
        if rng.random() < 0.4:
            n = len(c.create_comparison_levels()) - 1
            m = {2: [0.75, 0.25], 3: [0.625, 0.25, 0.125], 4: [0.5, 0.25, 0.125, 0.125]}[n]
            u = list(reversed(m))
            c = c.configure(m_probabilities=m, u_probabilities=u)
            meta["mu"] = True
        return c, meta
    if kind == "jw":
        return cl.JaroWinklerAtThresholds(col, [0.9, 0.7]), meta
    if kind == "dl":
        return cl.DamerauLevenshteinAtThresholds(col, [1]), meta
    if kind in ("dict", "dict_tf"):
        exact = {"sql_condition": f"{col}_l = {col}_r", "label_for_charts": rng.choice(["Exact", "same " + col, "1"])}
        fuzzy = {"sql_condition": f"substr({col}_l, 1, 2) = substr({col}_r, 1, 2)", "label_for_charts": "first two"}
        other = {"sql_condition": "ELSE", "label_for_charts": "anything else"}
        if rng.random() < 0.6:
            m = rng.choice([[0.7, 0.2, 0.1], [1.0, 0.5, 0.25], [0.5, 0.25, 0.25]])
            u = rng.choice([[0.1, 0.2, 0.7], [0.01, 1.0, 0.5]])
            for lv, mm, uu in zip((exact, fuzzy, other), m, u):
                lv["m_probability"], lv["u_probability"] = mm, uu
            meta["mu"] = True
        if rng.random() < 0.4:
            exact["fix_m_probability"] = True
            meta["fixed"] = True
            if rng.random() < 0.8:
                exact.setdefault("m_probability", 0.8125)
        if rng.random() < 0.4:
            tgt = rng.choice([exact, fuzzy, other])
            tgt["fix_u_probability"] = True
            meta["fixed"] = True
            if rng.random() < 0.8:
                tgt.setdefault("u_probability", 0.1875)
        if kind == "dict_tf":
            exact["tf_adjustment_column"] = col
            w = rng.choice([1.0, 0.5, 0.25, 0.75, 0.95, 0.99, round(rng.uniform(0.01, 0.999), 3)]
                           + ([0, 0.0] if flags.get("weight0") and flags.get("weight0f") else []))
            if w != 1.0 or rng.random() < 0.5:
                exact["tf_adjustment_weight"] = w
            if rng.random() < 0.4:
                exact["tf_minimum_u_value"] = rng.choice([0.001, 0.05])
            if rng.random() < 0.4:
                fuzzy["tf_adjustment_column"] = col
                fuzzy["tf_adjustment_weight"] = rng.choice([0.5, 1.0])
                if rng.random() < 0.5:
                    fuzzy["disable_tf_exact_match_detection"] = True
            meta["tf_weight"] = w
        nulllv = {"sql_condition": f"{col}_l IS NULL OR {col}_r IS NULL", "label_for_charts": "null", "is_null_level": True}
        lvls = [exact, fuzzy]
        pos = rng.choice([0, 0, 1, 2, None])        # the null level need not come first, or exist
        if pos is not None:
            lvls.insert(pos, nulllv)
        meta["null_position"] = pos
        comp = {"output_column_name": rng.choice([col, col + " cmp", "c_" + col]),
                "comparison_levels": lvls + [other]}
        if flags.get("description_dict") and rng.random() < 0.6:
            comp["comparison_description"] = rng.choice(["how " + col + " compares", "x", "Exact match",
                                                         comp["output_column_name"], "CustomComparison"])
            meta["description"] = True
        return comp, meta
    # custom comparison from level creators
    lv = [cll.NullLevel(col),
          cll.ExactMatchLevel(col).configure(m_probability=0.8, u_probability=0.05, label_for_charts="same"),
          cll.LevenshteinLevel(col, 2).configure(tf_adjustment_column=col, tf_adjustment_weight=rng.choice([0.5, 1.0])),
          cll.ElseLevel()]
    kw = {}
    if flags.get("description_creator") and rng.random() < 0.6:
        kw["comparison_description"] = rng.choice(["custom " + col, col])
        meta["description"] = True
    return cl.CustomComparison(output_column_name=col, comparison_levels=lv, **kw), meta


def gen_model(rng, flags, backend, portable):
    from splink import SettingsCreator, block_on
    link_type = rng.choice(["dedupe_only", "dedupe_only", "link_only", "link_and_dedupe"])
    uid = rng.choice(["unique_id", "unique_id", "id"])
    exploding = (not portable) and backend == "duckdb" and rng.random() < 0.25
    cols = rng.sample(["first_name", "surname", "city"], rng.choice([2, 2, 3]))
    comps, metas = [], []
    for c in cols:
        comp, meta = gen_comparison(rng, c, portable, flags, False)
        comps.append(comp)
        metas.append(meta)
    brs = []
    nbr = rng.choice([1, 2, 2, 3])
    pool = ["city", "first_name", "surname", "age"]
    for i in range(nbr):
        c = rng.choice(pool)
        r = rng.random()
        if r < 0.35:
            brs.append(block_on(c))
        elif r < 0.6:
            brs.append(f"l.{c} = r.{c}")
        elif r < 0.8 and backend == "duckdb" and not portable:
            brs.append(block_on(c, salting_partitions=rng.choice([2, 3, 4, 7])))
        elif r < 0.9 and backend == "duckdb" and not portable:
            brs.append({"blocking_rule": f"l.{c} = r.{c} and l.age = r.age", "salting_partitions": rng.choice([2, 3, 5])})
        else:
            brs.append(block_on(c, "age"))
    if exploding:
        brs.append({"blocking_rule": "l.arr = r.arr", "arrays_to_explode": ["arr"]})
    opts = {}
    if rng.random() < 0.6:
        opts["probability_two_random_records_match"] = rng.choice([0.01, 0.25, 0.5, 0.001])
    if rng.random() < 0.4:
        opts["retain_intermediate_calculation_columns"] = True
    if rng.random() < 0.3:
        opts["retain_matching_columns"] = False
    if rng.random() < 0.4:
        opts["additional_columns_to_retain"] = rng.choice([["age"], ["age", "city"], []])
    if rng.random() < 0.3:
        opts.update({"bayes_factor_column_prefix": "b_", "comparison_vector_value_column_prefix": "g_"})
        # a custom term-frequency prefix makes the *in-memory* predict raise as soon as a level has a
        # tf adjustment (ComparisonLevel builds its InputColumn without the column settings): loud
        # failure outside C09, so the custom tf prefix is only combined with tf-free models
        if not any(m["kind"] in ("exact_tf", "dict_tf", "custom") for m in metas):
            opts["term_frequency_adjustment_column_prefix"] = "t_"
    if rng.random() < 0.3:
        opts.update({"em_convergence": rng.choice([0.01, 0.001, 0.05]), "max_iterations": rng.randint(1, 30)})
    if uid != "unique_id":
        opts["unique_id_column_name"] = uid
    sc = SettingsCreator(link_type=link_type, comparisons=comps, blocking_rules_to_generate_predictions=brs, **opts)
    route = rng.choice(["creator", "dict"])
    settings = sc if route == "creator" else sc.create_settings_dict(backend)
    tabs = make_tables(rng, link_type, uid=uid, with_arr=exploding)
    history = []
    if rng.random() < 0.75:
        history.append(("u", None))
    if rng.random() < 0.35:
        history.append(("lambda", None))
    if rng.random() < 0.3:
        history.append(("mlabel", None))
    nem = rng.choice([0, 1, 1, 2])
    em_cols = [c for c in ["city", "first_name", "surname", "age"]]
    for i in range(nem):
        history.append(("em", rng.choice(em_cols)))
    rng.shuffle(history)
    return {"link_type": link_type, "uid": uid, "settings": settings, "route": route, "tabs": tabs,
            "history": history, "metas": metas, "opts": opts, "nbr": len(brs), "exploding": exploding,
            "backend": backend, "portable": portable}


def apply_training(lk, op, arg):
    from splink import block_on
    try:
        if op == "u":
            lk.training.estimate_u_using_random_sampling(max_pairs=2e4, seed=1)
        elif op == "lambda":
            lk.training.estimate_probability_two_random_records_match([block_on("first_name", "surname")], recall=0.7)
        elif op == "em":
            lk.training.estimate_parameters_using_expectation_maximisation(block_on(arg))
        elif op == "mlabel":
            lk.training.estimate_m_from_label_column("cluster")
        su.quiet()
        return True
    except Exception as e:        # training on tiny data can legitimately fail; not a C09 matter
        su.quiet()
        return repr(e)[:120]


# ------------------------------------------------------------------------- Coq side of X
def rec_to_coq(rec: dict) -> str:
    if not rec:
        return "(@nil (string * val))"
    return "[" + "; ".join(f"({coq_str(k)}, {py_to_val(v)})" for k, v in rec.items()) + "]"


LEVEL_CTX = {
    "str(self.comparison_vector_value)": lambda lv: str(lv._comparison_vector_value),
    "ComparisonLevel.default_m_probability": lambda lv: lv.default_m_probability,
    "ComparisonLevel.default_u_probability": lambda lv: lv.default_u_probability,
}


def object_record(obj, paths):
    rec = {}
    for f, path in paths.items():
        try:
            v = getpath(obj, path)
        except AttributeError:
            v = None
        if isinstance(v, tuple):
            v = list(v)
        rec[f] = v
    return rec


def json_record(d: dict, drop=()):
    return {k: v for k, v in d.items() if k not in drop and not (isinstance(v, list) and v and isinstance(v[0], dict))
            and not isinstance(v, dict)}


HEADER = """From Coq Require Import List Bool ZArith String.
From Splinkv Require Import Model.Serialise.
From SplinkGen Require Import C09_gen.
Import ListNotations.
Open Scope string_scope.
(* case: kind, in-memory record, context, real JSON (as record), record of the reloaded object *)
Definition nost := {| s_rules := []; s_loader := [] |}.
Definition stage_of (kind : nat) : stage :=
  match kind with
  | 0 => hd nost %(s0)s | 1 => hd nost %(s1)s | 2 => hd nost %(s2)s
  | 3 => hd nost %(s3)s | 4 => hd nost %(s4)s | _ => hd nost %(s5)s
  end.
(* the path a saved object takes when a new linker loads it *)
Definition reload_of (kind : nat) : list stage :=
  match kind with
  | 0 => %(r0)s | 1 => %(r1)s | 2 => %(s2)s | 3 => %(s3)s | 4 => %(s4)s | _ => %(s5)s
  end.
Definition wf_of (kind : nat) (r : record) : bool :=
  match kind with
  | 0 => wfb %(w)s_K %(w)s_allowed %(w)s_cons r
  | _ => true
  end.
Definition sub_record (a b : record) : bool :=
  forallb (fun kv => match lookup b (fst kv) with Some v => val_eqb (snd kv) v | None => false end) a.
Definition run_case (c : nat * record * record * record * record * bool) : bool :=
  match c with (kind, rec, env, js, rel, check_wf) =>
    let st := stage_of kind in
    (if check_wf then wf_of kind rec else true) &&
    match save (s_rules st) rec env with
    | Some j => record_eqb j js || (Nat.eqb 2 kind && sub_record j js)
    | None => false
    end &&
    match run_pipeline (map (fun s => (s, env)) (reload_of kind)) rec with
    | Some r => forallb (fun kv => val_eqb (snd kv) (get r (fst kv))) rel
    | None => false
    end
  end.
Notation length := List.length.
"""


def correspondence(ctx: Ctx, pipelines, flags):
    VCOUNT.clear()
    byname = {p.name: (i, p) for i, p in enumerate(pipelines)}
    needed = ["level_roundtrip", "comparison_roundtrip", "settings_roundtrip", "blocking_reload_BlockingRule",
              "blocking_reload_SaltedBlockingRule", "blocking_reload_ExplodingBlockingRule"]
    coq_ok = all(n in byname for n in needed + ["level_reload", "comparison_reload"])
    terms, term_meta = [], []

    def pref(n):
        i, p = byname[n]
        return f"p{i}_{n}"

    def add_terms(kind, pname, obj, jsd, obj2, env, check_wf=True, drop_js=()):
        if not coq_ok:
            return
        _, p = byname[pname]
        paths = {f: pa for f, pa in p.paths.items() if f in [k for k, *_ in p.stages[0].loader] or kind >= 3}
        if kind >= 3:
            paths = {f: pa for f, pa in p.paths.items() if f != "sql_dialect"}
        rec = object_record(obj, paths)
        rel = object_record(obj2, paths)
        js = json_record(jsd, drop=drop_js)
        try:
            t = f"({kind}%nat, {rec_to_coq(rec)}, {rec_to_coq(env)}, {rec_to_coq(js)}, {rec_to_coq(rel)}, {'true' if check_wf else 'false'})"
        except Exception as e:
            ctx.hist("coq_case_skipped", type(e).__name__)
            return
        terms.append(t)
        term_meta.append({"kind": pname, "record": rec, "json": js, "reloaded": rel, "env": env})

    nmodels = 26 if ctx.quick else 160
    plan = []
    for i in range(nmodels):
        r = ctx.rng.random()
        if r < 0.2:
            plan.append(("duckdb", True, "sqlite"))       # portable model trained on DuckDB, reloaded on SQLite too
        elif r < 0.3:
            plan.append(("sqlite", True, "duckdb"))
        else:
            plan.append(("duckdb", False, None))
    t_start = time.time()
    n_pred_cmp = 0
    case_dirs = []
    for ci, (backend, portable, other) in enumerate(plan):
        case = gen_model(ctx.rng, flags, backend, portable)
        case_dir = tempfile.TemporaryDirectory(prefix="c09m_", dir="/var/tmp")
        case_dirs.append(case_dir)
        case["path"] = os.path.join(case_dir.name, "model.json")      # one file per model, overwritten at every save
        descr_ok = all(v for k, v in flags.items() if k.startswith("description_"))
        info = {"case": ci, "backend": backend, "other_backend": other, "link_type": case["link_type"], "route": case["route"],
                "comparisons": case["metas"], "history": case["history"], "options": case["opts"]}
        try:
            lk = linker_for(case["tabs"], case["settings"], backend)
        except Exception as e:
            ctx.hist("model_construction", "raised:" + type(e).__name__)
            ctx.notes.append(f"case {ci}: model construction raised {e!r}"[:200])
            continue
        points = [0] + [i + 1 for i in range(len(case["history"])) if ctx.rng.random() < 0.5]
        if len(case["history"]) not in points:
            points.append(len(case["history"]))
        done = 0
        trained = []
        for pt in sorted(set(points)):
            while done < pt:
                op, arg = case["history"][done]
                res = apply_training(lk, op, arg)
                trained.append((op, arg, res if res is not True else "ok"))
                done += 1
            check_point(ctx, case, lk, backend, other, info, trained, pt, descr_ok, add_terms, flags)
            n_pred_cmp += 1
        ctx.hist("backend", backend + ("+" + other if other else ""))
        ctx.hist("link_type", case["link_type"])
        ctx.hist("route", case["route"])
        ctx.hist("history", ",".join(op for op, _ in case["history"]) or "untrained")
        for m in case["metas"]:
            ctx.hist("comparison_kind", m["kind"])
    for cd in case_dirs:
        cd.cleanup()
    ctx.cov["models"] = len(plan)
    ctx.cov["save_reload_points"] = n_pred_cmp
    ctx.cov["x_wall_s"] = round(time.time() - t_start, 1)

    # ---- model evaluated inside Coq on the real records
    if coq_ok and terms:
        i0, p0 = byname["level_roundtrip"]
        hd = {f"s{i}": f"{pref(n)}_stages" for i, n in enumerate(needed)}
        hd.update({"r0": f"{pref('level_reload')}_stages", "r1": f"{pref('comparison_reload')}_stages",
                   "w": pref("level_roundtrip")})
        header = HEADER % hd
        bad, errs = ctx.eval_cases("C09_x", header, terms, "run_case", shard=120)
        ctx.cov["coq_evaluated_records"] = len(terms)
        ctx.obligation("correspondence: Gallina save/load/wfb on real records = real JSON / reloaded objects",
                       not bad and not errs, "; ".join(errs)[:500])
        for e in errs[:2]:
            ctx.violation("C09 correspondence cases could not be evaluated in Coq", {"broken": "C09_x evaluation", "error": e[:1500]},
                          found_input=False)
        seen = set()
        for b in bad[:40]:
            m = term_meta[b]
            key = m["kind"]
            if key in seen:
                continue
            seen.add(key)
            ctx.violation(
                f"Gallina model of {m['kind']} disagrees with the real serialiser/constructor on a real record",
                {"case": m, "implementation": m["json"], "specification": "save t_current record = real JSON and "
                 "load d_current JSON = attributes of the reloaded object and the record is well-formed"},
                {"model_mismatch": m["kind"]}, found_input=True)
    elif not coq_ok:
        ctx.obligation("correspondence: Gallina model evaluated on real records", False, "pipelines missing")
    else:
        ctx.obligation("correspondence: Gallina model evaluated on real records", False, "no record reached the Coq evaluation")
        ctx.violation("C09: no real record was evaluated against the Gallina model in this run (every model was skipped)",
                      {"broken": "C09_x evaluation: zero cases"}, {"coq_cases": 0}, found_input=False)


VCOUNT: dict = {}


def limited(ctx, kind, what, replay, feats):
    """at most two reports per kind of disagreement and run (the first ones carry the replay)"""
    VCOUNT[kind] = VCOUNT.get(kind, 0) + 1
    ctx.hist("x_disagreements", kind)
    if VCOUNT[kind] <= 2:
        ctx.violation(what, replay, feats)


def check_point(ctx, case, lk, backend, other, info, trained, pt, descr_ok, add_terms, flags):
    uid = case["uid"]
    info = dict(info, trained=list(trained), point=pt)
    key = (json.dumps(lk._settings_obj.as_dict(), sort_keys=True, default=str), backend, other)
    try:
        p1 = predict_rows(lk, uid)
    except Exception as e:
        ctx.hist("predict", "in-memory predict raised:" + type(e).__name__ + ":" + " ".join(str(e).split())[-120:])
        ctx.count_case(key, False, None)
        return
    route = ctx.rng.choice(["path", "path", "dict"])
    d1, d1_text, lk2 = save_and_reload(lk, case["tabs"], backend, route, path=case.get("path"))
    nontrivial = len(p1) >= 1 and (len(case["metas"]) >= 2) and (bool(trained) or bool(case["opts"]))
    ctx.count_case(key, nontrivial, {"link_type": case["link_type"], "route": case["route"], "history": trained,
                                     "comparisons": [m["kind"] for m in case["metas"]], "rows": len(p1)})
    ctx.hist("reload_route", route)
    # (1) JSON text is the returned dict
    if d1_text != json.loads(json.dumps(d1)):
        limited(ctx, "json_file", "JSON file written by save_model_to_json (same path, overwrite=True) differs from the returned dict",
                {"case": info, "implementation": {"file": d1_text, "returned": d1}}, {"json_file_differs": True})
    # (2) predictions
    p2 = predict_rows(lk2, uid)
    diffs = diff_predictions(p1, p2)
    if diffs:
        limited(ctx, "predictions", "reloaded model scores pairs differently from the in-memory model",
                {"case": info, "settings_json": d1_text, "implementation": diffs,
                 "specification": "predict() of the reloaded linker equals predict() of the in-memory linker row by row (1e-9)"},
                {"predictions_differ": True, "backend": backend, "route": route})
    # (3) second generation JSON
    d2 = lk2.misc.save_model_to_json()
    a, b = (d1_text, json.loads(json.dumps(d2)))
    if not descr_ok:
        a, b = strip_descriptions(a), strip_descriptions(b)
    if a != b:
        where = [k for k in a if a.get(k) != b.get(k)]
        limited(ctx, "second_generation", "second-generation JSON differs from first-generation JSON",
                {"case": info, "implementation": {"first": {k: a[k] for k in where}, "second": {k: b.get(k) for k in where}},
                 "specification": "save(load(save(model))) == save(model)"},
                {"second_generation_differs": True, "keys": where[:3]})
    # (4) structure of the reloaded tree + Coq-evaluated records
    s1, s2 = lk._settings_obj, lk2._settings_obj
    shape1 = [(c.output_column_name, len(c.comparison_levels)) for c in s1.comparisons]
    shape2 = [(c.output_column_name, len(c.comparison_levels)) for c in s2.comparisons]
    brs1 = [type(b).__name__ for b in s1._blocking_rules_to_generate_predictions]
    brs2 = [type(b).__name__ for b in s2._blocking_rules_to_generate_predictions]
    lay1, lay2 = level_layout(s1), level_layout(s2)
    if shape1 != shape2 or brs1 != brs2 or lay1 != lay2:
        limited(ctx, "structure", "reloaded model has a different structure", {"case": info, "settings_json": d1_text,
                "implementation": {"in_memory": [shape1, brs1, lay1], "reloaded": [shape2, brs2, lay2]}},
                {"structure_differs": True})
        return
    do_coq = (not ctx.quick) or ctx.rng.random() < 0.7       # thorough: every save point; quick: ~70%
    if do_coq:
        for c1, c2, cj in zip(s1.comparisons, s2.comparisons, d1_text["comparisons"]):
            add_terms(1, "comparison_roundtrip", c1, cj, c2, {}, check_wf=False)
            for l1, l2, lj in zip(c1.comparison_levels, c2.comparison_levels, cj["comparison_levels"]):
                env = {k: f(l1) for k, f in LEVEL_CTX.items()}
                env = {k: v for k, v in env.items() if v is not None}
                plain_name = l1._tf_adjustment_column not in ("group", "index")
                if plain_name:
                    add_terms(0, "level_roundtrip", l1, lj, l2, env)
        add_terms(2, "settings_roundtrip", s1, d1_text, s2, {}, check_wf=False, drop_js=("sql_dialect",))
        for b1, b2, bj in zip(s1._blocking_rules_to_generate_predictions, s2._blocking_rules_to_generate_predictions,
                              d1_text["blocking_rules_to_generate_predictions"]):
            kind = {"BlockingRule": 3, "SaltedBlockingRule": 4, "ExplodingBlockingRule": 5}[type(b1).__name__]
            pname = "blocking_reload_" + type(b1).__name__
            add_terms(kind, pname, b1, bj, b2, {}, check_wf=False, drop_js=("sql_dialect",))
    # (5) the other backend (portable models)
    if other:
        try:
            with tempfile.TemporaryDirectory(prefix="c09_", dir="/var/tmp") as td:
                path = os.path.join(td, "m.json")
                lk.misc.save_model_to_json(path, overwrite=True)
                lk3 = linker_for(case["tabs"], path, other)
            p3 = predict_rows(lk3, uid)
        except Exception as e:
            ctx.violation(f"portable model saved on {backend} cannot be loaded / scored on {other}: {e!r}"[:300],
                          {"case": info, "settings_json": d1_text, "implementation": repr(e)[:500]},
                          {"cross_backend_raises": True, "from": backend, "to": other})
            return
        diffs = diff_predictions_cross(p1, p3)
        ctx.hist("cross_backend", f"{backend}->{other}:{'same' if not diffs else 'differs'}")
        if diffs:
            ctx.violation(f"model saved on {backend} and reloaded on {other} scores pairs differently",
                          {"case": info, "settings_json": d1_text, "implementation": diffs,
                           "specification": "match_weight per pair equal (1e-9) on the other executable backend"},
                          {"predictions_differ": True, "cross_backend": f"{backend}->{other}"})


def diff_predictions_cross(a, b):
    out = []
    if set(a) != set(b):
        return [{"rows_only_first": [list(k) for k in sorted(set(a) - set(b), key=str)][:3],
                 "rows_only_second": [list(k) for k in sorted(set(b) - set(a), key=str)][:3]}]
    for k in a:
        for c in ("match_weight", "match_probability"):
            va, vb = a[k][c], b[k][c]
            if va == vb:
                continue
            if math.isinf(va) or math.isinf(vb) or abs(va - vb) > 1e-9 * max(1.0, abs(va)):
                out.append({"pair": list(k), "column": c, "first": va, "second": vb})
        if len(out) >= 3:
            break
    return out
