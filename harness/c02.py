"""C02  Scores follow the Fellegi-Sunter formula with the model's parameters.

 P  theorems of Properties/C02.v (gamma = first TRUE level with Splink's numbering; divisor CASE =
    max; score = prior odds x product of retained columns; probability / infinity; thresholds;
    weight 0; evaluating the expected SQL skeletons gives the model's score).
 T  translators/c02_sql.py parses the SQL that the real generators emit for a grid of seeded
    settings into nx/bx skeletons; Coq compares them with the model's generic generators
    (gen_gamma_case, gen_bf_case, gen_tf_case, final_ok) by vm_compute.
 X  real predict() (+ thresholds, waterfall_chart) on DuckDB and SQLite against the Gallina model
    evaluated inside Coq (harness/c02_x.py).
"""
from __future__ import annotations

import copy
import json
import math
import re
from fractions import Fraction as Fr

from harness import c02_gen as G
from harness import c02_x as X
from harness import c02_misc
from harness.common import Ctx, REPO, coq_Q, coq_list, coq_opt, git_blob
from translators import c02_sql as T

T_HEADER = """From Coq Require Import List Bool ZArith QArith.
From Splinkv Require Import Base.TV Model.Scoring.
Import ListNotations.
Local Open Scope Q_scope.
""" + G.COQ_LEVEL_HELPER + """
Definition t_case := (Q * list (list level) * option Q * list nx * list nx * list (option nx) * final_select)%type.
(* the numerators u of POW(u / divisor, w) found in an emitted TF CASE, in order *)
Fixpoint pow_bases (e : nx) : list Q :=
  match e with
  | NIf _ t r => pow_bases t ++ pow_bases r
  | NPow (NDiv (NLit u) _) _ => [u]
  | _ => []
  end.
(* what the model expects there: u_exact of every level whose branch reaches POW *)
Definition expected_bases (ls : list level) : list Q :=
  flat_map (fun lc => if tf_active (fst lc) (snd lc) then [u_exact_or ls (fst lc)] else []) (combine ls (assign_cvv ls)).
Fixpoint qlist_eqb (a b : list Q) : bool :=
  match a, b with [], [] => true | x :: t, y :: t' => Qeq_bool x y && qlist_eqb t t' | _, _ => false end.
(* 0 shape, 1 SQL generable, 2 gamma CASE, 3 bf CASE, 4 tf CASE, 5 final select + WHERE, 6 u_exact literals of the TF CASE *)
Definition t_report (c : t_case) : list bool :=
  match c with (p, cmps, thr, gs, bs, ts, f) =>
    let ic := combine (seq 0 (length cmps)) cmps in
    [ Nat.eqb (length gs) (length cmps) && Nat.eqb (length bs) (length cmps) && Nat.eqb (length ts) (length cmps);
      forallb tf_generable cmps;
      forallb (fun x => nx_eqb (snd x) (gen_gamma_case (fst x) (assign_cvv (fst x)))) (combine cmps gs);
      forallb (fun x => nx_eqb (snd x) (gen_bf_case (fst (fst x)) (snd (fst x)))) (combine ic bs);
      forallb (fun x => match snd x with
                        | Some e => has_tf (snd (fst x)) && nx_eqb e (gen_tf_case (fst (fst x)) (snd (fst x)))
                        | None => negb (has_tf (snd (fst x))) end) (combine ic ts);
      final_ok p cmps thr f;
      forallb (fun x => match snd x with
                        | Some e => qlist_eqb (pow_bases e) (expected_bases (fst x))
                        | None => true end) (combine cmps ts) ]
  end.
Definition t_ok (c : t_case) : bool := forallb (fun b => b) (t_report c).
"""
T_PARTS = ["shape", "sql-generable", "gamma CASE (Comparison._case_statement)", "bayes-factor CASE (_bayes_factor_sql)",
           "tf-adjustment CASE (_tf_adjustment_sql)", "final select / WHERE (_combine_prior_and_bfs, threshold)",
           "u_exact literal of the TF CASE (_u_probability_corresponding_to_exact_match: first single-column exact level on the TF column)"]

SOURCES = ["splink/internals/predict.py", "splink/internals/comparison.py", "splink/internals/comparison_level.py",
           "splink/internals/term_frequencies.py", "splink/internals/settings.py", "splink/internals/misc.py",
           "splink/internals/waterfall_chart.py", "splink/internals/comparison_creator.py",
           "splink/internals/comparison_level_creator.py"]

BOUNDARY_FEATURES = {"parameter_dropped_by_as_dict": True}


def thr_choice(rng):
    r = rng.random()
    if r < 0.25:
        return None, None, None
    if r < 0.6:
        w = rng.choice([0.0, 2.0, -3.0, 5.5, -0.25, 10.0])
        return None, w, Fr(w)
    p = rng.choice([0.5, 0.75, 0.2, 0.9, 0.0])
    if p == 0.0:
        return p, None, None
    return p, None, Fr(math.log2(p / (1 - p)))


def t_term(spec, tr, thrq):
    return (f"({coq_Q(Fr(spec['prior']))}, {G.cmps_term(spec)}, {X.oq(thrq)}, {coq_list(tr['gammas'], 'nx')}, "
            f"{coq_list(tr['bfs'], 'nx')}, {coq_list(['(@None nx)' if t is None else f'(Some {t})' for t in tr['tfs']], '(option nx)')}, {tr['final']})")


def translate_spec(spec, dialect, thr_p, thr_w):
    so = G.settings_creator(spec, dialect=dialect).get_settings(dialect)
    G.apply_setters(so, spec)
    from splink.internals.dialects import SplinkDialect
    inf = SplinkDialect.from_string(dialect).infinity_expression
    return T.translate(so, spec["tf_cols"], thr_p, thr_w, so._sqlglot_dialect, inf)


def skeleton_stage(ctx: Ctx):
    n = 84 if ctx.quick else 600
    items = []
    for i in range(n):
        boundary = (i % 6 == 5)
        spec = G.gen_spec(ctx.rng, "T", boundary=boundary, multi_exact=(i % 3 == 1 and not boundary))
        dialect = "duckdb" if i % 4 else "sqlite"
        thr_p, thr_w, thrq = thr_choice(ctx.rng)
        items.append({"spec": spec, "dialect": dialect, "thr_p": thr_p, "thr_w": thr_w, "thrq": thrq, "boundary": boundary})
    terms, kept = [], []
    for it in items:
        try:
            tr = translate_spec(it["spec"], it["dialect"], it["thr_p"], it["thr_w"])
        except T.Untranslatable as e:
            ctx.obligation("translate emitted SQL", False, str(e))
            it["untranslatable"] = str(e)
            ctx.t_untranslatable.append(it)
            continue
        it["translated"] = tr
        terms.append(t_term(it["spec"], tr, it["thrq"]))
        kept.append(it)
        ctx.hist("T_dialect", it["dialect"])
        ctx.hist("T_threshold", "prob" if it["thr_p"] else "weight" if it["thr_w"] is not None else "none")
    bad, errs = ctx.eval_cases("C02_t", T_HEADER, terms, "t_ok", shard=12, timeout=600)
    for e in errs:
        ctx.obligation("skeleton shard evaluation", False, e)
    ctx.obligations += len(terms)
    ctx.discharged += (len(terms) - len(bad)) if not errs else 0
    ctx.cov["skeleton_obligations"] = len(terms)
    ctx.cov.setdefault("translated_sources", {}).update({p: git_blob(REPO / p) for p in SOURCES})
    if kept:
        ctx.cov["samples"].append({"skeleton_obligation": {"dialect": kept[0]["dialect"],
                                                            "final": kept[0]["translated"]["final"][:400]}})
    failing = [kept[i] for i in bad]
    for f in failing:
        f["parts_failed"] = ["(not evaluated)"]
    if failing:
        sel = failing[:16]
        txt = T_HEADER + "Definition cs := " + coq_list([t_term(f["spec"], f["translated"], f["thrq"]) for f in sel]) + \
            ".\nEval vm_compute in (map t_report cs).\n"
        ok, out = ctx.coqc_text("C02_trep", txt)
        flat = " ".join(out.split())
        reps = re.findall(r"\[((?:true|false)(?:; (?:true|false))*)\]", flat)
        for f, r in zip(sel, reps):
            f["parts_failed"] = [T_PARTS[i] for i, b in enumerate(r.split("; ")) if b == "false"]
    return failing, errs


def gen_case(rng, backend, boundary=False, mode="X"):
    allow_inf = True       # u = 0 levels on both engines (SQLite writes infinity as the overflowing literal 9e999 since b7a83537)
    spec = G.gen_spec(rng, mode, boundary=boundary, allow_inf=allow_inf,
                      multi_exact=(not boundary and rng.random() < 0.3))
    # link type: two input tables for link_only / link_and_dedupe (TF from the concatenation of both);
    # retain flags: a quarter of the models run with Splink's defaults (no intermediate columns to read)
    spec["link_type"] = rng.choice(["dedupe_only", "dedupe_only", "link_only", "link_and_dedupe"])
    retain = boundary or rng.random() < 0.75
    rows = X.gen_data(rng)
    lookups = X.gen_lookups(rng, spec, rows)
    rules = rng.choice([["1=1"], ["1=1"], ["l.a = r.a", "l.b = r.b", "substr(l.c,1,1) = substr(r.c,1,1)"],
                        ["l.d = r.d or l.a = r.a", "l.unique_id + 1 = r.unique_id"]])
    r = rng.random()
    thr_w = None if r < 0.15 else ({"row": rng.randint(0, 50)} if r < 0.55 else rng.choice([0.0, -2.0, 3.0, -7.5, 6.25]))
    r = rng.random()
    thr_p = None if r < 0.15 else ({"row": rng.randint(0, 50)} if r < 0.55 else rng.choice([0.5, 0.25, 0.9, 0.01, 0.0]))
    # waterfall_chart raises KeyError when a level's TF column is not an input column of its comparison
    # (value_l/value_r lookup) - loud and outside the property: no chart requested for such models
    foreign_tf = any(lv["tf_col"] and lv["tf_col"] not in c.get("cols", [c["name"]]) for c in spec["comparisons"] for lv in c["levels"])
    return {"spec": spec, "rows": rows, "lookups": lookups, "rules": rules, "backend": backend, "retain": retain,
            "split": rng.randint(2, max(2, len(rows) - 2)),
            "thr_w": thr_w, "thr_p": thr_p, "waterfall": (rng.random() < 0.6) and not foreign_tf and retain}


def gen_exact_case(rng, backend):
    """all parameters powers of two, prior 1/2, no TF: engine float arithmetic is exact, so rows whose
    score EQUALS the threshold must be kept (>=) and are compared"""
    spec = G.gen_spec(rng, "P2", boundary=False, allow_inf=False, ncmp=rng.choice([1, 2, 3]))
    return {"spec": spec, "rows": X.gen_data(rng, rng.randint(6, 9)), "lookups": {}, "rules": ["1=1"], "backend": backend,
            "thr_w": {"row": rng.randint(0, 50)}, "thr_p": 0.5, "waterfall": False, "exact_thr": True}


def case_nontrivial(case, impl):
    gam = set()
    for oc in impl["outcomes"]:
        gam.add(json.dumps(oc))
    multi = any(sum(1 for v in lv if v == 1) >= 2 for oc in impl["outcomes"] for lv in oc)
    return len(impl["pairs"]) >= 3 and len(gam) >= 2 and multi


def evaluate(ctx, name, cases):
    """run the implementation for every case, evaluate in Coq; returns list of (case, impl, infos, codes)"""
    terms, metas = [], []
    for case in cases:
        try:
            impl = X.run_impl(case)
        except AssertionError:
            raise
        except Exception as e:                     # the real code refused a well-formed model
            metas.append((case, None, None, repr(e)))
            continue
        if case["thr_p"] == 0.0 and impl["kept_p"] is not None:
            pass
        term, infos, wf_ok = X.case_term(case, impl)
        impl["wf_py_ok"] = wf_ok
        terms.append(term)
        metas.append((case, impl, infos, None))
    live = [m for m in metas if m[1] is not None]
    bad, errs = ctx.eval_cases(name, X.HEADER, terms, "run_case", shard=6, timeout=900)
    details = {}
    if bad:
        sel = bad[:12]
        txt = X.HEADER + "Definition cs := " + coq_list([terms[i] for i in sel]) + ".\nEval vm_compute in (map report_case cs).\n"
        ok, out = ctx.coqc_text("C02_xrep", txt)
        flat = " ".join(out.split())
        m = re.search(r"=\s*(\[.*\])\s*:\s*list", flat)
        if m:
            body = m.group(1)
            # split top-level lists
            depth, cur, parts = 0, "", []
            for ch in body[1:-1]:
                if ch == "[":
                    depth += 1
                if ch == "]":
                    depth -= 1
                cur += ch
                if depth == 0 and ch == "]":
                    parts.append(cur)
                    cur = ""
            for i, ptxt in zip(sel, parts):
                details[i] = [(int(a), [int(x) for x in re.findall(r"\d+", b)])
                              for a, b in re.findall(r"\((\d+)(?:%nat)?, \[([^\]]*)\]\)", ptxt)]
    return metas, live, bad, errs, details


def describe_failure(case, impl, infos, det):
    out = []
    for pidx, codes in det[:3]:
        rec = impl["recs"][pidx]
        py = infos[pidx]["py"]
        spec_side = None
        if py is not None:
            spec_side = {"gamma": [c["gamma"] for c in py["cols"]],
                         "bf": [str(c["bf"]) for c in py["cols"]],
                         "tf_adj": [None if c["tf"] is None else float(c["tf"]) for c in py["cols"]],
                         "score": "inf" if py["score"] == "inf" else float(py["score"]),
                         "match_weight": "inf" if py["score"] == "inf" else math.log2(py["score"]),
                         "match_probability": float(py["prob"])}
        out.append({"pair": infos[pidx]["pair"], "failed_checks": [X.CODES[c] for c in codes],
                    "implementation": {k: v for k, v in rec.items() if k.startswith(("gamma_", "bf_", "tf_", "match_"))},
                    "specification": spec_side, "outcomes": impl["outcomes"][pidx]})
    return out


def still_fails(ctx, case):
    metas, live, bad, errs, details = evaluate(ctx, "C02_shrink", [case])
    if metas[0][1] is None:
        return False
    return bool(bad)


def shrink(ctx, case, budget=14):
    """greedy: drop rows, comparisons, thresholds while the disagreement persists"""
    case = copy.deepcopy(case)
    n = 0
    changed = True
    while changed and n < budget:
        changed = False
        cands = []
        for k in range(len(case["spec"]["comparisons"])):
            if len(case["spec"]["comparisons"]) > 1:
                c2 = copy.deepcopy(case)
                del c2["spec"]["comparisons"][k]
                c2["spec"]["tf_cols"] = sorted({lv["tf_col"] for c in c2["spec"]["comparisons"] for lv in c["levels"] if lv["tf_col"]})
                c2["lookups"] = {c: t for c, t in c2["lookups"].items() if c in c2["spec"]["tf_cols"]}
                cands.append(c2)
        if case["rules"] != ["1=1"]:
            c2 = copy.deepcopy(case)
            c2["rules"] = ["1=1"]
            cands.append(c2)
        for key in ("thr_w", "thr_p", "waterfall"):
            if case.get(key):
                c2 = copy.deepcopy(case)
                c2[key] = None
                cands.append(c2)
        if len(case["rows"]) > 2:
            half = len(case["rows"]) // 2
            for part in (case["rows"][:half], case["rows"][half:]):
                if len(part) >= 2:
                    c2 = copy.deepcopy(case)
                    c2["rows"] = copy.deepcopy(part)
                    cands.append(c2)
        for c2 in cands:
            n += 1
            if n > budget:
                break
            try:
                if still_fails(ctx, c2):
                    case, changed = c2, True
                    break
            except Exception:
                pass
    return case


def report_x_failures(ctx, metas_live, bad, details, features_extra=None, stream="ordinary"):
    seen = set()
    kinds_reported = set()
    for i in bad:
        case, impl, infos, _ = metas_live[i]
        det = details.get(i, [])
        codes = sorted({c for _, cs in det for c in cs})
        feats = {"stream": stream, "backend": case["backend"], "failed_checks": [X.CODES[c] for c in codes]}
        feats.update(G.spec_features(case["spec"]))
        if features_extra:
            feats.update(features_extra)
        if stream == "boundary":
            # one report per dropped parameter kind (the witnesses come first and are minimal)
            kinds = set()
            if 3 in codes and feats["tf_weight_zero_via_creator"]:
                kinds.add("tf_adjustment_weight=0")
            if 2 in codes and feats["u_zero_via_creator"]:
                kinds.add("u_probability=0")
            if kinds and kinds <= kinds_reported:
                continue
            kinds_reported |= kinds
            feats["dropped"] = sorted(kinds)
        key = json.dumps({k: v for k, v in feats.items() if k != "backend"}, sort_keys=True)
        if key in seen or len(seen) >= 3 or (not det and seen):
            continue
        seen.add(key)
        if not case.get("no_shrink"):
            try:
                small = shrink(ctx, case, budget=8 if stream == "boundary" else 14)
                m2, live2, bad2, errs2, det2 = evaluate(ctx, "C02_shrink", [small])
                if bad2:
                    case, impl, infos, _ = live2[0]
                    det = det2.get(0, det)
            except Exception as e:
                ctx.log("shrink failed:", repr(e))
        ctx.violation(
            "predict() output differs from the Fellegi-Sunter specification: " + ", ".join(feats["failed_checks"]),
            {"case": case, "failing_pairs": describe_failure(case, impl, infos, det),
             "conditions": impl["conditions"], "thresholds": {"weight": impl.get("thr_w_value"), "probability": impl.get("thr_p_value")}},
            feats)


def correspondence(ctx: Ctx):
    n_duck, n_lite = (46, 18) if ctx.quick else (400, 150)
    cases = [gen_case(ctx.rng, "duckdb") for _ in range(n_duck)] + [gen_case(ctx.rng, "sqlite") for _ in range(n_lite)]
    n_exact = 8 if ctx.quick else 40
    cases += [gen_exact_case(ctx.rng, "duckdb" if i % 3 else "sqlite") for i in range(n_exact)]
    metas, live, bad, errs, details = evaluate(ctx, "C02_x", cases)
    for case, impl, infos, err in metas:
        if impl is None:
            ctx.obligation("real predict() accepts the generated model", False, err)
            n_raised = getattr(ctx, "_c02_raised", 0)
            ctx._c02_raised = n_raised + 1
            if n_raised < 2:
                ctx.violation("predict() raised on a well-formed model", {"case": case, "error": err},
                              {"raises": True, "backend": case["backend"], **G.spec_features(case["spec"])})
            continue
        spec = case["spec"]
        ctx.count_case(json.dumps(case, sort_keys=True), case_nontrivial(case, impl),
                       {"backend": case["backend"], "comparisons": [[lv["kind"] for lv in c["levels"]] for c in spec["comparisons"]],
                        "pairs": len(impl["pairs"]), "tf_cols": spec["tf_cols"], "lookups": sorted(case["lookups"])})
        ctx.cov["evaluations"] += max(0, len(impl["pairs"]) - 1)
        ctx.hist("backend", case["backend"])
        ctx.hist("link_type", spec["link_type"])
        ctx.hist("retain_flags", "both on" if case.get("retain", True) else "splink defaults")
        ctx.hist("waterfall_checked", impl["wf"] is not None)
        ctx.hist("n_comparisons", len(spec["comparisons"]))
        for c in spec["comparisons"]:
            if "cols" in c:
                ks = [G.ecols(lv) for lv in c["levels"]]
                multi = next((i for i, e in enumerate(ks) if len(e) >= 2), None)
                single = next((i for i, e in enumerate(ks) if len(e) == 1), None)
                ctx.hist("two_column_exact_level", "before single-column exact" if (multi is not None and single is not None and multi < single)
                         else "after single-column exact")
        for c in spec["comparisons"]:
            ctx.hist("route", c["route"])
            ctx.hist("n_levels", len(c["levels"]))
            for lv in c["levels"]:
                ctx.hist("level_kind", lv["kind"])
                if lv["tf_col"]:
                    ctx.hist("tf_weight", lv["w"])
                    ctx.hist("tf_min_u", lv["min_u"])
                if Fr(lv["u"]) == 0 and lv["kind"] not in ("null",):
                    ctx.hist("u_zero", lv["u_via"])
                    ctx.hist("u_zero_backend", case["backend"])
        ctx.hist("tf_lookup_registered", bool(case["lookups"]))
        ctx.hist("exact_threshold_stream", bool(case.get("exact_thr")))
        ctx.hist("thr_w", "row" if isinstance(case["thr_w"], dict) else str(case["thr_w"]))
        ctx.hist("thr_p", "row" if isinstance(case["thr_p"], dict) else str(case["thr_p"]))
        for info in infos:
            if info["py"] is not None:
                ctx.hist("score_kind", "inf" if info["py"]["score"] == "inf" else "finite")
            else:
                ctx.hist("score_kind", "null")
        bad_rows = [i["pair"] for i in infos if i["bad_num"]]
        ctx.obligation("engine output and waterfall records are numbers (no None / NaN / -inf, no leaked columns)", not bad_rows)
        if bad_rows:
            ctx.violation("predict() / waterfall_chart produced None, NaN or -inf where a number is required (or columns that the retain "
                          "flags switch off)", {"case": case, "pairs": bad_rows[:5]}, {"bad_number": True, "backend": case["backend"]})
        if impl["wf"] is not None:
            ctx.obligation("waterfall log2 records add up to match_weight", impl["wf_py_ok"])
        if impl["wf"] is not None and not impl["wf_py_ok"]:
            ctx.violation("waterfall_chart records do not add up to the match weight", {"case": case},
                          {"waterfall_sum": True, "backend": case["backend"]})
    for e in errs:
        ctx.obligation("correspondence shard evaluation", False, e)
    ctx.obligation(f"correspondence predict() = Gallina score on {len(live)} models", not bad and not errs)
    report_x_failures(ctx, live, bad, details)
    if errs and not bad:
        ctx.violation("correspondence C02_x could not be evaluated", {"broken": "C02_x", "errors": errs[:3]}, found_input=False)


def boundary_stream(ctx: Ctx):
    """user-supplied boundary parameters (tf_adjustment_weight = 0, u_probability = 0) given
    through the public constructors: DESIGN 7.3 (ComparisonLevel.as_dict drops falsy values)."""
    n = 8 if ctx.quick else 60
    cases = []
    # fixed witness first: exact match with TF weight 0 -> bf_tf_adj must be 1
    w = {"spec": {"prior": "1/2", "link_type": "dedupe_only", "tf_cols": ["a"], "boundary": True, "mode": "X",
                  "comparisons": [{"name": "a", "route": "custom", "levels": [
                      {"kind": "null", "col": "a", "arg": None, "sql": None, "m": "1/2", "u": "1/2", "tf_col": None, "w": "1",
                       "min_u": "0", "disable": False, "exact_col": None, "exact_cols": None, "u_via": "creator", "w_via": "creator"},
                      {"kind": "exact", "col": "a", "arg": None, "sql": None, "m": "9/10", "u": "1/10", "tf_col": "a", "w": "0",
                       "min_u": "0", "disable": False, "exact_col": "a", "exact_cols": None, "u_via": "creator", "w_via": "creator"},
                      {"kind": "else", "col": "a", "arg": None, "sql": None, "m": "1/10", "u": "9/10", "tf_col": None, "w": "1",
                       "min_u": "0", "disable": False, "exact_col": None, "exact_cols": None, "u_via": "creator", "w_via": "creator"}]}]},
         "rows": [{"unique_id": 1, "a": "ann", "b": "x", "c": "x", "d": "x"}, {"unique_id": 2, "a": "ann", "b": "x", "c": "x", "d": "x"},
                  {"unique_id": 3, "a": "bob", "b": "x", "c": "x", "d": "x"}],
         "lookups": {}, "rules": ["1=1"], "backend": "duckdb", "thr_w": None, "thr_p": None, "waterfall": False,
         "no_shrink": True}
    cases.append(w)
    w2 = copy.deepcopy(w)
    w2["spec"]["comparisons"][0]["levels"][1].update({"tf_col": None, "u": "0", "w": "1"})
    w2["spec"]["tf_cols"] = []
    cases.append(w2)
    tries = 0
    while len(cases) < n and tries < 400:
        tries += 1
        c = gen_case(ctx.rng, "duckdb", boundary=True)
        f = G.spec_features(c["spec"])
        if f["tf_weight_zero_via_creator"] or f["u_zero_via_creator"]:
            cases.append(c)
    metas, live, bad, errs, details = evaluate(ctx, "C02_xb", cases)
    for case, impl, infos, err in metas:
        if impl is None:
            ctx.violation("predict() raised on a well-formed model (boundary parameters)", {"case": case, "error": err},
                          {"raises": True, **BOUNDARY_FEATURES, **G.spec_features(case["spec"])})
            continue
        ctx.count_case(json.dumps(case, sort_keys=True), True, None)
        ctx.hist("boundary_stream", json.dumps(G.spec_features(case["spec"]), sort_keys=True))
    for e in errs:
        ctx.obligation("boundary shard evaluation", False, e)
    ctx.obligation(f"boundary parameters (weight 0 / u 0 through the constructors) honoured on {len(live)} models", not bad and not errs)
    report_x_failures(ctx, live, bad, details, BOUNDARY_FEATURES, stream="boundary")
    if errs and not bad:
        ctx.violation("correspondence C02_xb could not be evaluated", {"broken": "C02_xb", "errors": errs[:3]}, found_input=False)


def report_skeleton_failures(ctx: Ctx, failing, errs):
    seen = set()
    for f in sorted(failing, key=lambda f: f["parts_failed"] == ["(not evaluated)"]):
        feats = {"skeleton": True, "parts": f.get("parts_failed", [])}
        key = json.dumps(feats, sort_keys=True)
        if key in seen or len(seen) >= 3 or (seen and feats.get("parts") == ["(not evaluated)"]):
            continue
        seen.add(key)
        # a broken skeleton obligation is not yet a failing input: the X stage searches for one;
        # here we report the obligation (the X violations carry concrete inputs)
        ctx.violation("emitted SQL differs from the model's expected skeleton: " + "; ".join(f.get("parts_failed", [])),
                      {"broken": "skeleton obligation C02_t", "spec": f["spec"], "dialect": f["dialect"],
                       "threshold": {"prob": f["thr_p"], "weight": f["thr_w"]}, "translated": f["translated"]},
                      feats, found_input=False)
    for u in ctx.t_untranslatable[:3]:
        ctx.violation("scoring SQL no longer matches any shape the translator understands: " + u["untranslatable"],
                      {"broken": "translator c02_sql", "spec": u["spec"], "dialect": u["dialect"]},
                      {"untranslatable": True}, found_input=False)
    if errs and not failing:
        ctx.violation("skeleton obligations could not be evaluated", {"broken": "C02_t", "errors": errs[:3]}, found_input=False)


def replay(ctx: Ctx):
    data = json.loads(open(ctx.replay).read())
    case = data.get("case")
    if not case:
        ctx.log("replay file has no concrete case; running the full check")
        return False
    metas, live, bad, errs, details = evaluate(ctx, "C02_replay", [case])
    ctx.obligation("replayed case agrees with the model", not bad and not errs and bool(live))
    if bad:
        report_x_failures(ctx, live, bad, details, None, stream=data.get("features", {}).get("stream", "replay"))
    return True


def run(ctx: Ctx):
    ctx.t_untranslatable = []
    ctx.cov["rule"] = (
        "T: seeded settings (1-4 comparisons, 2-5 levels out of null/exact/levenshtein/custom SQL/else, built through "
        "CustomComparison, library comparisons and raw dictionaries; dyadic m,u so that Python's float m/u is exact; TF on "
        "exact and fuzzy levels, weights, minimum-u, disable_tf_exact_match_detection; u=0; thresholds by weight/probability; "
        "DuckDB and SQLite dialects; all dedupe_only - the scoring stages do not depend on the link type): one skeleton obligation each. "
        "X: link types dedupe_only (one table), link_only and link_and_dedupe (two tables, TF from their concatenation); retain flags both on "
        "(3/4 of the models: every gamma_/bf_/bf_tf_adj_/tf_ column compared) or Splink's defaults (1/4: only match_weight, match_probability and "
        "the kept-row sets; the intermediate columns must be absent); waterfall_chart on ~45% of the models; seeded data x models x thresholds; a case is "
        "non-trivial when it has >=3 scored pairs, >=2 distinct outcome vectors and a pair on which >=2 levels of one "
        "comparison are TRUE; distinct by full case.")
    ctx.trusted += [
        "translators/c02_sql.py (sqlglot parse of the emitted SQL; CASE -> nested if; cast(x as float8) -> x; level conditions opaque)",
        "translators/c02_misc.py (Python ast of splink/internals/misc.py -> Gallina over Q; log2 / 2**w / w == 0.0 on float weights are "
        "abstract Section variables; float literals read as exact decimals)",
        "harness X: the engine evaluates each level's SQL condition per pair (outcome vectors fed to the Gallina model); "
        "term frequencies recomputed in Python from the data / the registered lookup as exact fractions",
        "engine POW for fractional weights: finite table computed by Python math.pow on the model-checked exact base and exponent",
        "float tolerance 1e-9 relative (engine IEEE arithmetic vs exact Q); rows within 1e-9 of a threshold are not compared",
        "modelled not verified: SQL engines' CASE/coalesce/comparison semantics (SQL-to-Gallina dictionary, DESIGN 3b); "
        "IEEE NaN (inf*0) excluded by generating u_exact > 0 and m > 0",
    ]
    ok = ctx.proof_stage("Properties/C02.v")
    if not ok:
        ctx.violation("theorems of Properties/C02.v no longer check", {"broken": "Properties/C02.v"}, found_input=False)
    if ctx.replay and replay(ctx):
        return
    c02_misc.stage(ctx)
    failing, errs = skeleton_stage(ctx)
    report_skeleton_failures(ctx, failing, errs)
    correspondence(ctx)
    boundary_stream(ctx)
