"""C06  All executable backends compute the same linkage.

 P  Properties/C06.v: C06_agree_via_model (two implementations each within tolerance of one deterministic model agree
    within the composed tolerance), soundness of the per-run checkers (all_close, zrows_eqb, same_partition) and of the
    dialect-table checker.
 T  translators/c06_dialect_table.py extracts dialect -> role -> (sql name, >=?, registered?, similarity|distance) from
    dialects.py, the emitted level SQL and the AST of sqlite/database_api.py::_register_udfs; Coq evaluates
    `dialect_table_ok`.
 X  the same seeded pipeline (prior estimate, full-sample u, 1-2 EM sessions, predict with TF, clustering, blocking
    analysis) on DuckDB and SQLite (Spark in the thorough tier); every result compared with the DuckDB reference in Coq.
"""
from __future__ import annotations

import re

from harness.common import REPO, Ctx, git_blob
from translators import c06_dialect_table as D

HEADER = """From Coq Require Import String Bool ZArith QArith List.
From Splinkv Require Import Model.Backends.
Import ListNotations. Open Scope string_scope.
"""


def table_stage(ctx: Ctx, dialects, spark_exec=None):
    try:
        table, notes = D.extract(dialects, spark_exec)
    except D.Untranslatable as e:
        ctx.obligation("extract dialect table", False, str(e))
        m = re.match(r"(\w+)/(\w+):", str(e))
        feats = {"dialect": m.group(1), "role": m.group(2)} if m else {}
        ctx.violation(f"dialect table cannot be extracted consistently: {e}",
                      {"case": {"what": str(e)}, "implementation": str(e), "specification": "the name a level emits is the dialect's function name and is registered"},
                      feats)
        return None
    ctx.cov["dialect_table"] = {d: [{k: r[k] for k in ("role", "sqlname", "ge", "registered", "kind")} for r in rows] for d, rows in table.items()}
    ctx.cov["dialect_table_evidence"] = notes
    txt = HEADER + f"Definition t := {D.coq_table(table)}.\nEval vm_compute in (dialect_table_ok t, bad_entries t).\n"
    ok, out = ctx.coqc_text("C06_table", txt)
    flat = " ".join(out.split())
    good = ok and re.search(r"=\s*\(true,", flat) is not None
    ctx.obligation("C06_dialect_table_ok evaluated on the extracted table", bool(good), flat[-600:])
    for d, rows in table.items():
        for r in rows:
            ctx.count_case(("table", d, r["role"], r["sqlname"], r["ge"], r["registered"], r["kind"]), True,
                           {"dialect": d, **{k: r[k] for k in ("role", "sqlname", "ge", "registered", "kind")}})
            ctx.hist("table_rows_per_dialect", d)
    if not good:
        for d, role in re.findall(r'\("(\w+)", "(\w+)"\)', flat):
            r = next(x for x in table[d] if x["role"] == role)
            # concrete failing input: the level on an identical pair / a dissimilar pair
            ctx.violation(f"{d}: level for role {role} emits {r['sqlname']}(l, r) {'>=' if r['ge'] else '<='} t but "
                          f"{'nothing is registered under that name' if not r['registered'] else 'the registered function is a ' + r['kind']}",
                          {"case": {"dialect": d, "role": role, "sql": r["sql"], "values": ["abcd", "abcd"]},
                           "implementation": {k: r[k] for k in ("sqlname", "ge", "registered", "kind")},
                           "specification": "registered, and a similarity for >= levels / a distance for <= levels"},
                          {"dialect": d, "role": role})
    return table


def run(ctx: Ctx):
    ctx.cov["rule"] = ("T: one table row per (dialect, metric role). X: seeded pipelines (random link type, 1-2 tables of 18-30 rows drawn "
                       "from a small entity pool with typos/NULLs, 2-4 comparison creators both engines accept, 1-3 blocking rules, prior "
                       "estimate, full-sample u, 1-2 EM sessions, predict, clustering, blocking analysis); a pipeline is non-trivial when "
                       ">= 10 pairs are scored, >= 5 gamma values are positive and clustering merges something; distinct by full input.")
    ctx.trusted += [
        "translators/c06_dialect_table.py (AST reading of _register_udfs; two-point probe for engine built-ins; C16 translator for the emitted SQL)",
        "X: DuckDB is the reference implementation (its agreement with the backend-free models is the subject of C01-C05/C14); "
        "floats converted exactly to rationals; tolerance 1e-8 * max(1,|ref|)",
        "not covered: engine internals; Postgres/Athena (cannot run here); Spark only in the thorough tier and without Jaro/DL UDFs",
    ]
    ok = ctx.proof_stage("Properties/C06.v")
    if not ok:
        ctx.violation("theorems of Properties/C06.v no longer check", {"broken": "Properties/C06.v"}, found_input=False)
    ctx.cov["translated_sources"] = {p: git_blob(REPO / p) for p in
                                     ["splink/internals/dialects.py", "splink/internals/sqlite/database_api.py",
                                      "splink/internals/comparison_level_library.py", "splink/internals/duckdb/database_api.py"]}
    table_stage(ctx, ["duckdb", "sqlite"])
    from harness import c06_x
    c06_x.correspondence(ctx, ["duckdb", "sqlite"])
    if not ctx.quick:
        try:
            from harness import c06_spark
            c06_spark.run(ctx)
        except ImportError:
            ctx.notes.append("Spark stage not available")
