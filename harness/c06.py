"""C06  All executable backends compute the same linkage.

 P  Properties/C06.v: C06_agree_via_model (two implementations each within tolerance of one deterministic model agree
    within the composed tolerance), soundness of the per-run checkers (all_close, zrows_eqb, same_partition) and of the
    dialect-table checker.
 T  translators/c06_dialect_table.py extracts dialect -> role -> (sql name, >=?, registered?, similarity|distance) from
    dialects.py, the emitted level SQL and the AST of sqlite/database_api.py::_register_udfs; Coq evaluates
    `dialect_table_ok`.
 X  the same seeded pipeline (prior estimate, full-sample u, 1-2 EM sessions, predict with TF, clustering, blocking
    analysis) on DuckDB and SQLite (Spark in the thorough tier); every result compared with the DuckDB reference in Coq.
"""
from __future__ import annotations

import re

from harness.common import REPO, Ctx, git_blob
from translators import c06_dialect_table as D

HEADER = """From Coq Require Import String Bool ZArith QArith List.
From Splinkv Require Import Model.Backends.
Import ListNotations. Open Scope string_scope.
"""


def table_stage(ctx: Ctx, dialects, spark_exec=None):
    try:
        table, notes = D.extract(dialects, spark_exec)
    except D.Untranslatable as e:
        ctx.obligation("extract dialect table", False, str(e))
        m = re.match(r"(\w+)/(\w+):", str(e))
        feats = {"dialect": m.group(1), "role": m.group(2)} if m else {}
        ctx.violation(f"dialect table cannot be extracted consistently: {e}",
                      {"case": {"what": str(e)}, "implementation": str(e), "specification": "the name a level emits is the dialect's function name and is registered"},
                      feats)
        return None
    ctx.cov["dialect_table"] = {d: [{k: r[k] for k in ("role", "sqlname", "ge", "registered", "kind")} for r in rows] for d, rows in table.items()}
    ctx.cov["dialect_table_evidence"] = notes
    txt = HEADER + f"Definition t := {D.coq_table(table)}.\nEval vm_compute in (dialect_table_ok t, bad_entries t).\n"
    ok, out = ctx.coqc_text("C06_table", txt)
    flat = " ".join(out.split())
    good = ok and re.search(r"=\s*\(true,", flat) is not None
    ctx.obligation("C06_dialect_table_ok evaluated on the extracted table", bool(good), flat[-600:])
    for d, rows in table.items():
        for r in rows:
            ctx.count_case(("table", d, r["role"], r["sqlname"], r["ge"], r["registered"], r["kind"]), True,
                           {"dialect": d, **{k: r[k] for k in ("role", "sqlname", "ge", "registered", "kind")}})
            ctx.hist("table_rows_per_dialect", d)
    if not good:
        for d, role in re.findall(r'\("(\w+)", "(\w+)"\)', flat):
            r = next(x for x in table[d] if x["role"] == role)
            # concrete failing input: the level on an identical pair / a dissimilar pair
            ctx.violation(f"{d}: level for role {role} emits {r['sqlname']}(l, r) {'>=' if r['ge'] else '<='} t but "
                          f"{'nothing is registered under that name' if not r['registered'] else 'the registered function is a ' + r['kind']}",
                          {"case": {"dialect": d, "role": role, "sql": r["sql"], "values": ["abcd", "abcd"]},
                           "implementation": {k: r[k] for k in ("sqlname", "ge", "registered", "kind")},
                           "specification": "registered, and a similarity for >= levels / a distance for <= levels"},
                          {"dialect": d, "role": role})
    return table


def sql_level_stage(ctx: Ctx):
    """cheap cross-dialect obligation (no engine): for every level creator instance of the C16 grid that two dialects both
    support, the two emitted conditions must be `same_modulo synonyms` (equal after `strip`, up to the verified table of
    function-name synonyms)."""
    from translators import c16_levels as L
    hdr = """From Coq Require Import String Bool ZArith QArith List.
From Splinkv Require Import Base.TV Model.SqlExpr Model.Levels Model.Backends.
Import ListNotations. Open Scope string_scope.
"""
    terms, metas = [], []
    excluded = {}
    untranslated = set()
    for inst in L.level_grid(ctx.tier):
        trees = {}
        for d in ("duckdb", "sqlite", "spark"):
            try:
                trees[d] = (L.parse_sql(L.current_sql(inst, d), d), L.current_sql(inst, d))
            except (ValueError, NotImplementedError):
                continue
            except L.Untranslatable as e:
                ctx.obligation(f"translate {inst.key} on {d}", False, str(e)[:200])
                if (inst.family, d) in untranslated:
                    continue
                untranslated.add((inst.family, d))
                ctx.violation(f"{inst.family}: the SQL emitted for {d} leaves the fragment every dialect's SQL of this creator is in: {str(e)[:150]}",
                              {"case": {"level": inst.key, "dialect": d, "sql": L.current_sql(inst, d)},
                               "implementation": str(e)[:300], "specification": "same expression shape as the other dialects"},
                              {"dialect": d, "level": inst.family, "sql_level": True})
        for other in ("sqlite", "spark"):
            if "duckdb" not in trees or other not in trees:
                continue
            # documented dialect differences that are not function-name synonyms
            if inst.kind == "timediff" and inst.meta["is_string"]:
                excluded[f"{other}:{inst.family}"] = "date format strings and parse functions differ by dialect (strptime vs Java patterns)"
                continue
            if inst.kind == "literal" and inst.meta["type"] == "date" and other == "sqlite":
                excluded[f"{other}:{inst.family}:date"] = "SQLite has no DATE type: DATE('..') instead of CAST('..' AS DATE)"
                continue
            if inst.kind == "null_pattern":
                excluded[f"{other}:{inst.family}:pattern"] = "regex dialects are not compared"
                continue
            terms.append(f"({L.coq_expr(trees['duckdb'][0])}, {L.coq_expr(trees[other][0])})")
            metas.append((inst, other, trees["duckdb"][1], trees[other][1]))
            ctx.count_case(("sql_level", inst.key, other), True, {"level": inst.key, "duckdb": " ".join(trees["duckdb"][1].split())[:120],
                                                                  other: " ".join(trees[other][1].split())[:120]})
            ctx.hist("sql_level_pairs", f"duckdb~{other}:{inst.family}")
    bad, errs = ctx.eval_cases("C06_sql", hdr, terms, "fun c => same_modulo synonyms (fst c) (snd c)", shard=150, timeout=600)
    for e in errs:
        ctx.obligation("sql-level shard", False, e)
    ctx.obligations += len(terms)
    ctx.discharged += (len(terms) - len(bad)) if not errs else 0
    ctx.cov["sql_level_obligations"] = len(terms)
    ctx.cov["sql_level_excluded_by_design"] = excluded
    seen = set()
    for k in bad:
        inst, other, s0, s1 = metas[k]
        if (inst.family, other) in seen:
            continue
        seen.add((inst.family, other))
        ctx.violation(f"{inst.family}: the SQL emitted for duckdb and {other} differs beyond function-name synonyms",
                      {"case": {"level": inst.key, "constructor_meta": inst.meta, "duckdb_sql": s0, f"{other}_sql": s1},
                       "implementation": {"duckdb": " ".join(s0.split()), other: " ".join(s1.split())},
                       "specification": "same expression after strip, modulo the verified synonym table (Model/Backends.v synonyms)"},
                      {"dialect": other, "level": inst.family, "sql_level": True})
    if errs:
        ctx.violation("sql-level obligations could not be evaluated", {"broken": "C06_sql shards"}, found_input=False)


def run(ctx: Ctx):
    ctx.cov["rule"] = ("T: one table row per (dialect, metric role). X: seeded pipelines (random link type, 1-2 tables of 18-30 rows drawn "
                       "from a small entity pool with typos/NULLs, 2-4 comparison creators both engines accept, 1-3 blocking rules, prior "
                       "estimate, full-sample u, 1-2 EM sessions, predict, clustering, blocking analysis); a pipeline is non-trivial when "
                       ">= 10 pairs are scored, >= 5 gamma values are positive and clustering merges something; distinct by full input.")
    ctx.trusted += [
        "translators/c06_dialect_table.py (AST reading of _register_udfs; two-point probe for engine built-ins; C16 translator for the emitted SQL)",
        "X: DuckDB is the reference implementation (its agreement with the backend-free models is the subject of C01-C05/C14); "
        "floats converted exactly to rationals; tolerance 1e-8 * max(1,|ref|)",
        "not covered: engine internals; Postgres/Athena (cannot run here); Spark only in the thorough tier and without Jaro/DL UDFs",
    ]
    ok = ctx.proof_stage("Properties/C06.v")
    if not ok:
        ctx.violation("theorems of Properties/C06.v no longer check", {"broken": "Properties/C06.v"}, found_input=False)
    ctx.cov["translated_sources"] = {p: git_blob(REPO / p) for p in
                                     ["splink/internals/dialects.py", "splink/internals/sqlite/database_api.py",
                                      "splink/internals/comparison_level_library.py", "splink/internals/duckdb/database_api.py"]}
    table_stage(ctx, ["duckdb", "sqlite"])
    sql_level_stage(ctx)
    from harness import c06_x
    c06_x.correspondence(ctx, ["duckdb", "sqlite"])
    if not ctx.quick:
        try:
            from harness import c06_spark
            c06_spark.run(ctx)
        except ImportError:
            ctx.notes.append("Spark stage not available")
