"""C06  All executable backends compute the same linkage.

 P  Properties/C06.v: C06_agree_via_model (two implementations each within tolerance of one deterministic model agree
    within the composed tolerance), soundness of the per-run checkers (all_close, zrows_eqb, same_partition) and of the
    dialect-table checker.
 T  translators/c06_dialect_table.py extracts dialect -> role -> (sql name, >=?, registered?, similarity|distance) from
    dialects.py, the emitted level SQL and the AST of sqlite/database_api.py::_register_udfs; Coq evaluates
    `dialect_table_ok`.
 X  the same seeded pipeline (prior estimate, full-sample u, 1-2 EM sessions, predict with TF, clustering, blocking
    analysis) on DuckDB and SQLite (Spark in the thorough tier); every result compared with the DuckDB reference in Coq.
"""
from __future__ import annotations

import re

from harness.common import REPO, Ctx, git_blob
from translators import c06_dialect_table as D

HEADER = """From Coq Require Import String Bool ZArith QArith List.
From Splinkv Require Import Model.Backends.
Import ListNotations. Open Scope string_scope.
"""


def table_stage(ctx: Ctx, dialects, spark_exec=None):
    try:
        table, notes = D.extract(dialects, spark_exec)
    except D.Untranslatable as e:
        ctx.obligation("extract dialect table", False, str(e))
        m = re.match(r"(\w+)/(\w+):", str(e))
        feats = {"dialect": m.group(1), "role": m.group(2)} if m else {}
        ctx.violation(f"dialect table cannot be extracted consistently: {e}",
                      {"case": {"what": str(e)}, "implementation": str(e), "specification": "the name a level emits is the dialect's function name and is registered"},
                      feats)
        return None
    ctx.cov["dialect_table"] = {d: [{k: r[k] for k in ("role", "sqlname", "ge", "registered", "kind")} for r in rows] for d, rows in table.items()}
    ctx.cov["dialect_table_evidence"] = notes
    txt = HEADER + f"Definition t := {D.coq_table(table)}.\nEval vm_compute in (dialect_table_ok t, bad_entries t).\n"
    ok, out = ctx.coqc_text("C06_table", txt)
    flat = " ".join(out.split())
    good = ok and re.search(r"=\s*\(true,", flat) is not None
    ctx.obligation("C06_dialect_table_ok evaluated on the extracted table", bool(good), flat[-600:])
    for d, rows in table.items():
        for r in rows:
            ctx.count_case(("table", d, r["role"], r["sqlname"], r["ge"], r["registered"], r["kind"]), True,
                           {"dialect": d, **{k: r[k] for k in ("role", "sqlname", "ge", "registered", "kind")}})
            ctx.hist("table_rows_per_dialect", d)
    # the function each role emits must return the same values on every backend on metric-distinguishing pairs
    if "duckdb" in table and spark_exec is None:
        execs = {d: D.engine_exec(d) for d in table}
        for r in table["duckdb"]:
            for d in table:
                o = next((x for x in table[d] if x["role"] == r["role"]), None)
                if d == "duckdb" or o is None or not (r["registered"] and o["registered"]):
                    continue
                try:
                    a, b = D.probe_values(execs["duckdb"], r["sqlname"]), D.probe_values(execs[d], o["sqlname"])
                except Exception as e:
                    ctx.obligation(f"probe {r['role']} on {d}", False, repr(e)[:200])
                    ctx.violation(f"{d}: the function emitted for role {r['role']} cannot be evaluated on the probe pairs: {e!r}"[:300],
                                  {"case": {"dialect": d, "role": r["role"], "sql": o["sql"]}, "implementation": repr(e)[:300],
                                   "specification": "evaluates like the DuckDB function of the role"}, {"dialect": d, "role": r["role"], "raises": True})
                    continue
                k = next((i for i, (x, y) in enumerate(zip(a, b)) if (x is None) != (y is None) or (x is not None and abs(x - y) > 1e-9)), None)
                ctx.obligation(f"{r['role']}: {o['sqlname']} on {d} = {r['sqlname']} on duckdb on {len(a)} metric-distinguishing pairs", k is None)
                for i, p_ in enumerate(D.PROBE_PAIRS):
                    ctx.count_case(("probe", r["role"], d, p_), bool(a[i]), None)
                if k is not None:
                    ctx.violation(f"{d}: {o['sqlname']}{D.PROBE_PAIRS[k]} = {b[k]} but duckdb {r['sqlname']} = {a[k]} (role {r['role']})",
                                  {"case": {"dialect": d, "role": r["role"], "values": list(D.PROBE_PAIRS[k]), "sql": o["sql"]},
                                   "implementation": b[k], "specification": a[k]}, {"dialect": d, "role": r["role"]})
    if not good:
        for d, role in re.findall(r'\("(\w+)", "(\w+)"\)', flat):
            r = next(x for x in table[d] if x["role"] == role)
            # concrete failing input: the level on an identical pair / a dissimilar pair
            ctx.violation(f"{d}: level for role {role} emits {r['sqlname']}(l, r) {'>=' if r['ge'] else '<='} t but "
                          f"{'nothing is registered under that name' if not r['registered'] else 'the registered function is a ' + r['kind']}",
                          {"case": {"dialect": d, "role": role, "sql": r["sql"], "values": ["abcd", "abcd"]},
                           "implementation": {k: r[k] for k in ("sqlname", "ge", "registered", "kind")},
                           "specification": "registered, and a similarity for >= levels / a distance for <= levels"},
                          {"dialect": d, "role": role})
    return table


def sql_level_stage(ctx: Ctx):
    """cheap cross-dialect obligation (no engine): for every level creator instance of the C16 grid that two dialects both
    support, the two emitted conditions must be `same_modulo synonyms` (equal after `strip`, up to the verified table of
    function-name synonyms)."""
    from translators import c16_levels as L
    hdr = """From Coq Require Import String Bool ZArith QArith List.
From Splinkv Require Import Base.TV Model.SqlExpr Model.Levels Model.Backends.
Import ListNotations. Open Scope string_scope.
"""
    terms, metas = [], []
    excluded = {}
    untranslated = set()
    for inst in L.level_grid(ctx.tier):
        trees = {}
        # ONE creator object is asked for all three dialects in turn (a creator must not remember anything dialect-specific);
        # string date-difference levels re-wrap their column on every call (DESIGN 7.10, C17) and get fresh creators
        reuse = not (inst.kind == "timediff" and inst.meta["is_string"])
        creator = inst.make()
        for d in ("duckdb", "sqlite", "spark"):
            sql_d = None
            try:
                sql_d = (creator if reuse else inst.make()).get_comparison_level(d).sql_condition
                trees[d] = (L.parse_sql(sql_d, d), sql_d)
            except (ValueError, NotImplementedError):
                continue
            except L.Untranslatable as e:
                ctx.obligation(f"translate {inst.key} on {d}", False, str(e)[:200])
                if (inst.family, d) in untranslated:
                    continue
                untranslated.add((inst.family, d))
                ctx.violation(f"{inst.family}: the SQL emitted for {d} leaves the fragment every dialect's SQL of this creator is in: {str(e)[:150]}",
                              {"case": {"level": inst.key, "dialect": d, "sql": sql_d, "creator_reused_after": "duckdb" if reuse else None},
                               "implementation": str(e)[:300], "specification": "same expression shape as the other dialects"},
                              {"dialect": d, "level": inst.family, "sql_level": True})
        for other in ("sqlite", "spark"):
            if "duckdb" not in trees or other not in trees:
                continue
            # documented dialect differences that are not function-name synonyms
            if inst.kind == "timediff" and inst.meta["is_string"]:
                excluded[f"{other}:{inst.family}"] = "date format strings and parse functions differ by dialect (strptime vs Java patterns)"
                continue
            if inst.kind == "literal" and inst.meta["type"] == "date" and other == "sqlite":
                excluded[f"{other}:{inst.family}:date"] = "SQLite has no DATE type: DATE('..') instead of CAST('..' AS DATE)"
                continue
            if inst.kind == "null_pattern":
                excluded[f"{other}:{inst.family}:pattern"] = "regex dialects are not compared"
                continue
            terms.append(f"({L.coq_expr(trees['duckdb'][0])}, {L.coq_expr(trees[other][0])})")
            metas.append((inst, other, trees["duckdb"][1], trees[other][1]))
            ctx.count_case(("sql_level", inst.key, other), True, {"level": inst.key, "duckdb": " ".join(trees["duckdb"][1].split())[:120],
                                                                  other: " ".join(trees[other][1].split())[:120]})
            ctx.hist("sql_level_pairs", f"duckdb~{other}:{inst.family}")
    bad, errs = ctx.eval_cases("C06_sql", hdr, terms, "fun c => same_modulo synonyms (fst c) (snd c)", shard=150, timeout=600)
    for e in errs:
        ctx.obligation("sql-level shard", False, e)
    ctx.obligations += len(terms)
    ctx.discharged += (len(terms) - len(bad)) if not errs else 0
    ctx.cov["sql_level_obligations"] = len(terms)
    ctx.cov["sql_level_excluded_by_design"] = excluded
    seen = set()
    for k in bad:
        inst, other, s0, s1 = metas[k]
        if (inst.family, other) in seen:
            continue
        seen.add((inst.family, other))
        ctx.violation(f"{inst.family}: the SQL emitted for duckdb and {other} differs beyond function-name synonyms",
                      {"case": {"level": inst.key, "constructor_meta": inst.meta, "duckdb_sql": s0, f"{other}_sql": s1},
                       "implementation": {"duckdb": " ".join(s0.split()), other: " ".join(s1.split())},
                       "specification": "same expression after strip, modulo the verified synonym table (Model/Backends.v synonyms)"},
                      {"dialect": other, "level": inst.family, "sql_level": True})
    if errs:
        ctx.violation("sql-level obligations could not be evaluated", {"broken": "C06_sql shards"}, found_input=False)


# custom SQL declared in one dialect (CustomLevel base_dialect_str / CustomRule sql_dialect / dict levels of a
# CustomComparison) with constructs whose meaning depends on the source dialect
CUSTOM_SQL = [
    ("level", "duckdb", "concat(fn_l, sn_l) = concat(fn_r, sn_r)"),                      # concat skips NULLs on DuckDB
    ("level", "duckdb", "amt_l ^ 2 = amt_r ^ 2"),                                        # ^ is power on DuckDB
    ("level", "duckdb", "amt_l ** 2 <= amt_r ** 2 + 1"),
    ("level", "duckdb", "cast(amt_l as integer) // 10 = cast(amt_r as integer) // 10"),  # integer division operator
    ("level", "duckdb", "amt_l / 4 = amt_r / 4"),                                        # / is float division on DuckDB
    ("level", "duckdb", "fn_l || sn_l = fn_r || sn_r"),
    ("level", "duckdb", "ifnull(fn_l, 'x') = ifnull(fn_r, 'x')"),
    ("level", "duckdb", "lower(fn_l) = lower(fn_r) and length(sn_l) = length(sn_r)"),
    ("level", "duckdb", "arr_l[1] = arr_r[1]"),                                          # 1-based on DuckDB, 0-based on Spark
    ("level", "duckdb", "list_contains(arr_l, 'x1') and list_contains(arr_r, 'x1')"),
    ("level", "sqlite", "ifnull(fn_l, 'x') = ifnull(fn_r, 'x')"),
    ("level", "sqlite", "substr(fn_l, 1, 2) = substr(fn_r, 1, 2)"),
    ("level", "sqlite", "amt_l / 4 = amt_r / 4"),
    ("level", "spark", "concat(fn_l, sn_l) = concat(fn_r, sn_r)"),
    ("rule", "duckdb", "concat(l.fn, l.sn) = concat(r.fn, r.sn)"),
    ("rule", "duckdb", "l.amt ^ 2 = r.amt ^ 2"),
    ("rule", "sqlite", "ifnull(l.fn, 'x') = ifnull(r.fn, 'x')"),
    ("dict_level", "duckdb", "concat(fn_l, sn_l) = concat(fn_r, sn_r)"),
    ("dict_level", "duckdb", "amt_l ^ 2 = amt_r ^ 2"),
]
CUSTOM_ROWS = [("john", "smith", 3.0, "john", "smith", 3.0), ("john", None, 3.0, "john", None, 3.0), ("john", None, 2.0, "john", "smith", -2.0),
               (None, "smith", 12.0, "smith", None, 17.0), (None, None, 0.0, None, None, 0.0), ("jo", "hn", 5.0, "j", "ohn", 5.0),
               ("John", "smith", 7.0, "john", "smyth", 9.0), ("x", "a", 1.0, None, "a", 1.5)]


def emitted_custom(kind, base, sql, d):
    import splink.comparison_level_library as cll
    import splink.comparison_library as cl
    from splink.internals.blocking_rule_library import CustomRule
    if kind == "level":
        return cll.CustomLevel(sql, base_dialect_str=base).get_comparison_level(d).sql_condition
    if kind == "rule":
        return CustomRule(sql, sql_dialect=base).get_blocking_rule(d).blocking_rule_sql
    comp = cl.CustomComparison(output_column_name="c", comparison_levels=[
        {"sql_condition": "fn_l is null or fn_r is null", "is_null_level": True}, {"sql_condition": sql, "base_dialect_str": base}, cll.ElseLevel()])
    return comp.get_comparison(d).comparison_levels[1].sql_condition


NULL_AMT_ROWS = [("a", "b", None, "a", "b", 2.0), ("a", "b", None, "a", "b", None)]


def eval_on(d, sql, rule, rows=None):
    """three-valued results of a condition on CUSTOM_ROWS on engine d (duckdb / sqlite)"""
    rows = CUSTOM_ROWS if rows is None else rows
    import duckdb

    from harness import splink_util as su
    cols = "fn_l, sn_l, amt_l, fn_r, sn_r, amt_r"
    if d == "duckdb":
        con = duckdb.connect()
        con.execute("create table t (id integer, fn_l varchar, sn_l varchar, amt_l double, fn_r varchar, sn_r varchar, amt_r double)")
        ex = lambda q: con.execute(q).fetchall()
    else:
        con = su.sqlite_api().con
        con.execute("create table t (id integer, fn_l text, sn_l text, amt_l real, fn_r text, sn_r text, amt_r real)")
        ex = lambda q: [tuple(r.values()) for r in con.execute(q).fetchall()]
    con.executemany("insert into t values (?,?,?,?,?,?,?)", [(i,) + r for i, r in enumerate(rows)])
    if rule:
        q = f"select l.id, ({sql}) from (select id, fn_l as fn, sn_l as sn, amt_l as amt from t) l join (select id, fn_r as fn, sn_r as sn, amt_r as amt from t) r on l.id = r.id order by 1"
    else:
        q = f"select id, ({sql}) from t order by 1"
    return [None if v is None else bool(v) for _i, v in ex(q)]


def custom_sql_stage(ctx: Ctx):
    """the dialect a custom level / rule is DECLARED in must be honoured: the SQL emitted for target dialect d has to be the
    sqlglot transpilation read=<declared dialect> write=d (compared in Coq after strip / synonyms; python AST equality when a
    construct is outside the modelled fragment).  A disagreement is turned into a concrete record pair on the engine."""
    import sqlglot

    from splink.internals.dialects import SplinkDialect
    from translators import c16_levels as L
    hdr = """From Coq Require Import String Bool ZArith QArith List.
From Splinkv Require Import Base.TV Model.SqlExpr Model.Levels Model.Backends.
Import ListNotations. Open Scope string_scope.
"""
    terms, metas, pyonly_bad = [], [], []
    untranslated_c = set()
    for kind, base, sql in CUSTOM_SQL:
        for d in ("duckdb", "sqlite", "spark"):
            if d == "sqlite" and ("arr" in sql):
                ctx.hist("custom_sql_unsupported_on_dialect", "sqlite:arrays")
                continue
            try:
                got = emitted_custom(kind, base, sql, d)
            except Exception as e:
                ctx.obligation(f"custom {kind} [{base}] {sql} on {d}", False, repr(e)[:200])
                if (kind, base, d, "raises") not in untranslated_c:
                    untranslated_c.add((kind, base, d, "raises"))
                    ctx.violation(f"custom {kind} declared in {base} cannot be created for {d}: {e!r}"[:300],
                                  {"case": {"creator": kind, "declared_dialect": base, "target_dialect": d, "sql": sql}, "implementation": repr(e)[:300],
                                   "specification": f"translated from {base} to {d}"},
                                  {"dialect": d, "custom_sql": True, "creator": kind, "declared_dialect": base, "raises": True})
                continue
            gb, gd = SplinkDialect.from_string(base).sqlglot_dialect, SplinkDialect.from_string(d).sqlglot_dialect
            want = sql if d == base else sqlglot.parse_one(sql, read=gb).sql(dialect=gd)
            try:
                generic = sqlglot.parse_one(sql).sql(dialect=gd)
            except Exception:
                generic = None
            ctx.count_case(("custom_sql", kind, base, sql, d), d != base and want != generic,
                           {"creator": kind, "declared_dialect": base, "target": d, "sql": sql, "emitted": got, "transpiled": want})
            ctx.hist("custom_sql_pairs", f"{kind}:{base}->{d}")
            meta = (kind, base, sql, d, got, want)
            try:
                terms.append(f"({L.coq_expr(L.parse_sql(got, d))}, {L.coq_expr(L.parse_sql(want, d))})")
                metas.append(meta)
            except L.Untranslatable:
                ctx.hist("custom_sql_checked_by_sqlglot_ast_only", f"{base}->{d}")
                ctx.obligations += 1
                try:
                    same = sqlglot.parse_one(got, read=gd) == sqlglot.parse_one(want, read=gd)
                except Exception:
                    same = " ".join(got.split()).lower() == " ".join(want.split()).lower()
                if same:
                    ctx.discharged += 1
                else:
                    pyonly_bad.append(meta)
    bad, errs = ctx.eval_cases("C06_custom", hdr, terms, "fun c => same_modulo synonyms (fst c) (snd c)", shard=100, timeout=600)
    for e in errs:
        ctx.obligation("custom-sql shard", False, e)
    ctx.obligations += len(terms)
    ctx.discharged += (len(terms) - len(bad)) if not errs else 0
    ctx.cov["custom_sql_obligations"] = len(terms)
    seen = set()
    for kind, base, sql, d, got, want in [metas[i] for i in bad] + pyonly_bad:
        if (kind, base, d) in seen:
            continue
        seen.add((kind, base, d))
        rep = {"case": {"creator": kind, "declared_dialect": base, "target_dialect": d, "sql": sql}, "implementation": got,
               "specification": f"sqlglot transpilation read={base} write={d}: {want}"}
        found = False
        if d in ("duckdb", "sqlite") and "arr" not in sql:
            try:
                a, b = eval_on(d, got, kind == "rule"), eval_on(d, want, kind == "rule")
                k = next((i for i, (x, y) in enumerate(zip(a, b)) if x != y), None)
                if k is not None:
                    names = ["fn_l", "sn_l", "amt_l", "fn_r", "sn_r", "amt_r"]
                    rep["case"]["record_pair"] = dict(zip(names, CUSTOM_ROWS[k]))
                    rep["implementation"] = {"sql": got, "value": a[k]}
                    rep["specification"] = {"sql": want, "value": b[k], "why": f"the level was declared in {base}"}
                    found = True
            except Exception as e:
                rep["case"]["engine_error"] = repr(e)[:300]
                found = True
        ctx.violation(f"custom {kind} declared in {base} is not translated as {base} SQL for {d}: emitted `{' '.join(got.split())[:90]}`",
                      rep, {"dialect": d, "custom_sql": True, "creator": kind, "declared_dialect": base}, found_input=found)


def custom_engine_stage(ctx: Ctx):
    """engine-level correspondence for the custom pool: the condition as emitted for target engine d, executed on d, must give
    the value the ORIGINAL text gives on the engine of its declared dialect, on record pairs with NULLs"""
    names = ["fn_l", "sn_l", "amt_l", "fn_r", "sn_r", "amt_r"]
    n = 0
    reported = set()
    for kind, base, sql in CUSTOM_SQL:
        if base not in ("duckdb", "sqlite") or "arr" in sql:
            continue
        for d in ("duckdb", "sqlite"):
            if d == base:
                continue
            try:
                got_sql = emitted_custom(kind, base, sql, d)
            except Exception as e:
                if (d, base, "raises") not in reported:
                    reported.add((d, base, "raises"))
                    ctx.violation(f"custom {kind} declared in {base} cannot be created for {d}: {e!r}"[:300],
                                  {"case": {"creator": kind, "declared_dialect": base, "target_dialect": d, "sql": sql}, "implementation": repr(e)[:300],
                                   "specification": f"translated from {base} to {d}"},
                                  {"dialect": d, "custom_sql": True, "creator": kind, "declared_dialect": base, "raises": True})
                continue
            for rows, tag in ((CUSTOM_ROWS, None), (NULL_AMT_ROWS if "amt" in sql else [], "null_numeric_argument")):
                if not rows:
                    continue
                ref = eval_on(base, sql, kind == "rule", rows)
                try:
                    got = eval_on(d, got_sql, kind == "rule", rows)
                except Exception as e:
                    got = [f"error: {e!r}"[:120]] * len(rows)
                for k, (a, b) in enumerate(zip(ref, got)):
                    n += 1
                    ctx.count_case(("custom_engine", kind, base, sql, d, k, tag), a is not False, None)
                    if a != b:
                        feats = {"dialect": d, "custom_sql": True, "creator": kind, "declared_dialect": base}
                        if tag:
                            feats[tag] = True
                        if (d, base, tag) in reported:
                            break
                        reported.add((d, base, tag))
                        ctx.violation(f"custom {kind} declared in {base} gives {b!r} on {d} but {a!r} on {base}: {sql}",
                                      {"case": {"creator": kind, "declared_dialect": base, "target_dialect": d, "sql": sql, "emitted": got_sql,
                                                "record_pair": dict(zip(names, rows[k]))},
                                       "implementation": b, "specification": a}, feats)
                        break
    ctx.cov["custom_engine_rows"] = n


def run(ctx: Ctx):
    ctx.cov["rule"] = ("T: one table row per (dialect, metric role). X: seeded pipelines (random link type, 1-2 tables of 18-30 rows drawn "
                       "from a small entity pool with typos/NULLs, 2-4 comparison creators both engines accept, 1-3 blocking rules, prior "
                       "estimate, full-sample u, 1-2 EM sessions, predict, clustering, blocking analysis); a pipeline is non-trivial when "
                       ">= 10 pairs are scored, >= 5 gamma values are positive and clustering merges something; distinct by full input.")
    ctx.trusted += [
        "translators/c06_dialect_table.py (AST reading of _register_udfs; two-point probe for engine built-ins; C16 translator for the emitted SQL)",
        "X: DuckDB is the reference implementation (its agreement with the backend-free models is the subject of C01-C05/C14); "
        "floats converted exactly to rationals; tolerance 1e-8 * max(1,|ref|)",
        "not covered: engine internals; Postgres/Athena (cannot run here); Spark only in the thorough tier and without Jaro/DL UDFs",
    ]
    ok = ctx.proof_stage("Properties/C06.v")
    if not ok:
        ctx.violation("theorems of Properties/C06.v no longer check", {"broken": "Properties/C06.v"}, found_input=False)
    ctx.cov["translated_sources"] = {p: git_blob(REPO / p) for p in
                                     ["splink/internals/dialects.py", "splink/internals/sqlite/database_api.py",
                                      "splink/internals/comparison_level_library.py", "splink/internals/duckdb/database_api.py"]}
    table_stage(ctx, ["duckdb", "sqlite"])
    sql_level_stage(ctx)
    custom_sql_stage(ctx)
    custom_engine_stage(ctx)
    from harness import c06_x
    c06_x.correspondence(ctx, ["duckdb", "sqlite"])
    if not ctx.quick:
        try:
            from harness import c06_spark
            c06_spark.run(ctx)
        except ImportError as e:
            ctx.obligation("Spark stage (thorough tier) importable", False, repr(e)[:200])
            ctx.violation(f"the thorough-tier Spark stage could not be imported: {e!r}"[:300], {"broken": "harness.c06_spark / pyspark import"},
                          {"spark_stage_missing": True}, found_input=False)
