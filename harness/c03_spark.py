"""C03, thorough tier only: the same step-by-step correspondence with the EM sessions run on Spark
(local[2], one SparkSession reused, lineage broken by persist; checkpoint directory under /var/tmp,
removed afterwards).  The captured comparison vectors / pattern counts, the iteration history and
the model before/after are checked by the same Coq runner as DuckDB and SQLite."""
from __future__ import annotations

import os
import shutil

from harness import c03_x as X
from harness.common import Ctx

CKPT = "/var/tmp/c03_spark_ckpt"


def session():
    os.environ.setdefault("PYSPARK_SUBMIT_ARGS", "--driver-memory 4g pyspark-shell")
    from pyspark.sql import SparkSession
    spark = (SparkSession.builder.master("local[2]").appName("verif-c03").config("spark.ui.enabled", "false").config("spark.ui.showConsoleProgress", "false")
             .config("spark.sql.shuffle.partitions", "2").config("spark.default.parallelism", "2")
             .config("spark.sql.ansi.enabled", "false").config("spark.sql.session.timeZone", "UTC")
             .config("spark.sql.warehouse.dir", CKPT + "/warehouse").getOrCreate())
    spark.sparkContext.setLogLevel("OFF")
    spark.sparkContext.setCheckpointDir(CKPT)
    return spark


def run(ctx: Ctx, terms, metas, n_cases=7):
    from harness import c03
    from splink.internals.spark.database_api import SparkAPI
    os.makedirs(CKPT, exist_ok=True)
    try:
        spark = session()
        done = 0
        tries = 0
        while done < n_cases and tries < 4 * n_cases:
            tries += 1
            case = X.gen_case(ctx.rng, "spark")
            case["link_type"], case["tables"] = "dedupe_only", [[r for t in case["tables"] for r in t]]
            for k, r in enumerate(case["tables"][0]):
                r["unique_id"] = k
            cols = [c for c in case["tables"][0][0] if c != "unique_id"]
            if any(all(r[c] is None for r in case["tables"][0]) for c in cols):
                continue                      # Spark cannot infer the type of an all-NULL pandas column
            case["sessions"] = case["sessions"][:2]
            case["max_iterations"] = min(case["max_iterations"], 3)
            for t in spark.catalog.listTables():
                if t.isTemporary:
                    spark.catalog.dropTempView(t.name)
            api = SparkAPI(spark_session=spark, break_lineage_method="persist", num_partitions_on_repartition=2)
            before = len(terms)
            c03.run_case(ctx, case, terms, metas, "spark", api=api)
            done += 1
            ctx.hist("spark_sessions", len(terms) - before)
        ctx.cov["spark_cases"] = done
    finally:
        try:
            spark.stop()
        except Exception:
            pass
        shutil.rmtree(CKPT, ignore_errors=True)
