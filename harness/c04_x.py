"""C04 correspondence: the real direct estimators on DuckDB / SQLite vs the Gallina model
(Model/Estimators.v) evaluated inside Coq.

The model's input is the list of gamma vectors of the pairs an estimator must look at.  The
harness computes that list ITSELF in Python from the generated tables (admissible pairs by link
type; label-equal pairs; listed pairs) with its own evaluation of the generated level
conditions - nothing is read back from Splink except the resulting model."""
from __future__ import annotations

import copy
import itertools
import json
from fractions import Fraction

import pandas as pd

from harness import c03_x as X3
from harness.common import Ctx, coq_bool, coq_list, coq_nat, coq_Q, coq_Z

HEADER = X3.HEADER + r"""
From Splinkv Require Import Model.Estimators.
From Splinkv Require Base.TV Model.Blocking.
Definition est_case (c : nat * list (list Z) * model * model) : bool :=
  match c with (kind, rows, before, after) =>
    model_close (match kind with
                 | O => estimate_u rows before
                 | 1%nat => estimate_m_label rows before
                 | _ => estimate_m_pairs rows before
                 end) after
  end.
Definition lt_of (k : nat) : link_t := match k with O => DedupeOnly | 1%nat => LinkOnly | _ => LinkAndDedupe end.
(* link type, table sizes, observed distinct matched pairs, recall, implementation: (0, p) = prior p,
   (1, _) = ValueError "more observed matches than is consistent with supplied recall",
   (2, _) = ZeroDivisionError (no admissible pair at all) *)
Definition tvn (n : nat) : Splinkv.Base.TV.tv :=
  match n with O => Splinkv.Base.TV.F | 1%nat => Splinkv.Base.TV.T | _ => Splinkv.Base.TV.U end.
(* the Gallina observed_matches (C01's block on the records against themselves) on the outcome matrices
   (row-major n x n; 1 true, 0 false, 2 NULL) of each deterministic rule and the admissibility matrix *)
Definition model_observed (n : nat) (adm : list nat) (mats : list (list nat)) : nat :=
  observed_matches (fun l r => Nat.eqb (nth (l * n + r) adm 0%nat) 1%nat)
                   (map (fun m => fun l r => tvn (nth (l * n + r) m 2%nat)) mats) (seq 0%nat n).
Definition prior_run (c : nat * list nat * Z * Q * (nat * Q) * (nat * list nat * list (list nat))) : bool :=
  match c with (k, ns, obs, recall, impl, (n, adm, mats)) =>
    match cartesian (lt_of k) (map (fun n => inject_Z (Z.of_nat n)) ns) with
    | Some cart =>
        Qeq_bool cart (inject_Z (Z.of_nat (admissible_pairs (lt_of k) ns))) &&
        Z.eqb (Z.of_nat (model_observed n adm mats)) obs &&
        match prior_from_records (fun l r => Nat.eqb (nth (l * n + r) adm 0%nat) 1%nat)
                                 (map (fun m => fun l r => tvn (nth (l * n + r) m 2%nat)) mats) (seq 0%nat n) recall cart, impl with
        | PriorOk p, (O, q) => qclose p q
        | RecallInconsistent, (1%nat, _) => true
        | PriorZeroDivision, (2%nat, _) => true
        | _, _ => false
        end
    | None => false
    end
  end.
"""

COLPOOL = ["a", "Surname", "c", "group", "first name", "index"]
DOMS = {"a": ["xa", "xb", "ya", None], "Surname": ["p", "q", None], "c": ["s", "t", "u"],
        "group": ["k", "l"], "first name": ["ma", "mb", "na", None], "index": ["v", "w", None]}
NAMES = ["ta", "tb", "tc"]
LTCODE = {"dedupe_only": 0, "link_only": 1, "link_and_dedupe": 2}


def gen_case(rng, backend):
    lt = rng.choice(["dedupe_only", "link_only", "link_and_dedupe"])
    ntab = 1 if lt == "dedupe_only" else rng.choice([2, 2, 3])
    cols = rng.sample(COLPOOL, 3)
    tables = []
    for t in range(ntab):
        n = rng.randint(5, 9) if ntab == 1 else rng.randint(2, 5)
        ids = rng.sample(range(1, 14), n)
        tables.append([dict(unique_id=i, **{c: rng.choice(DOMS[c]) for c in cols},
                            lab=rng.choice(["L1", "L1", "L2", "L2", "L3", "L4", None, None])) for i in ids])
    comps, truths = [], []
    for c in rng.sample(cols, rng.choice([2, 3])):
        other = rng.choice([x for x in cols if x != c])
        cd, tr = X3.gen_comparison(rng, c, other, backend, allow_tf=True)
        if rng.random() < 0.25:
            nn = [lv for lv in cd["comparison_levels"] if not lv.get("is_null_level")]
            rng.choice(nn)[rng.choice(["fix_m_probability", "fix_u_probability"])] = True
        comps.append(cd)
        truths.append(tr)
    recs = [(NAMES[k], r["unique_id"]) for k, t in enumerate(tables) for r in t]
    adm = admissible(lt, tables)
    ops = []
    for _ in range(rng.choice([2, 3, 4])):
        k = rng.choice(["u", "u", "mlabel", "mpairs"])
        if k == "u":
            extra = rng.choice([0, 0, 1, 7, 1000, 30000])
            ops.append({"op": "u", "max_pairs": float(full_threshold(lt, tables) + extra)})
        elif k == "mlabel":
            ops.append({"op": "mlabel"})
        elif backend == "duckdb" or lt == "dedupe_only":
            chosen = rng.sample(adm, min(len(adm), rng.randint(1, 6)))
            pairs = [((recs[i], recs[j]) if rng.random() < 0.5 else (recs[j], recs[i])) for i, j in chosen]
            ops.append({"op": "mpairs", "pairs": pairs})
    rules = []
    for _ in range(rng.choice([1, 2, 3])):
        rc = rng.sample(cols + ["lab"], rng.choice([1, 1, 2]))
        rules.append(" AND ".join(f'l."{c}" = r."{c}"' for c in rc))
    return {"backend": backend, "link_type": lt, "tables": tables, "comparisons": comps, "truth": truths, "prior": 0.1,
            "max_iterations": 2, "em_convergence": 1e-9, "ops": ops,
            "prior_op": {"rules": rules, "recall": rng.choice([1.0, 0.9, 0.75, 0.5, 0.3, 0.05, 0.01])}}


# ------------------------------------------------------------------------------------------
# the specification side, computed from the generated tables only
# ------------------------------------------------------------------------------------------
def records(case):
    return [dict(r, __ds=NAMES[k]) for k, t in enumerate(case["tables"]) for r in t]


def admissible(lt, tables):
    recs = [(k, r["unique_id"]) for k, t in enumerate(tables) for r in t]
    return [(i, j) for i, j in itertools.combinations(range(len(recs)), 2) if lt != "link_only" or recs[i][0] != recs[j][0]]


def full_threshold(lt, tables):
    """number of pairs from which estimate_u's sample is the whole table"""
    if lt == "link_only":
        return len(admissible(lt, tables))
    n = sum(len(t) for t in tables)
    return n * (n - 1) // 2


def gamma(comp, truth, l, r):
    col = truth["cols"][0]
    other = truth["cols"][1] if len(truth["cols"]) > 1 else None
    levels = comp["comparison_levels"]
    nn = [lv for lv in levels if not lv.get("is_null_level")]

    def eq(c):
        return l[c] is not None and r[c] is not None and l[c] == r[c]
    for lv in levels:
        lab = lv["label_for_charts"]
        if lab == "null":
            hit = l[col] is None or r[col] is None
        elif lab in ("exact", "one"):
            hit = eq(col)
        elif lab == "both":
            hit = eq(col) and eq(other)
        elif lab == "prefix":
            hit = l[col] is not None and r[col] is not None and l[col][:1] == r[col][:1]
        elif lab == "never":
            hit = l[col] == "never_seen" and l[col] is not None
        elif lab == "asym":
            hit = l[col] is not None and l[col] == truth["asym_val"]
        elif lab == "else":
            hit = True
        else:
            raise ValueError(lab)
        if hit:
            return -1 if lv.get("is_null_level") else len(nn) - 1 - nn.index(lv)
    raise AssertionError("no level")


def gvec(case, l, r):
    return [gamma(c, t, l, r) for c, t in zip(case["comparisons"], case["truth"])]


def order_key(case, rec):
    """the id the engines compare: the integer unique_id for a single table, otherwise the string
    source_dataset || '-__-' || unique_id (so '10' < '9')"""
    return rec["unique_id"] if len(case["tables"]) == 1 else f"{rec['__ds']}-__-{rec['unique_id']}"


def orient(case, recs, i, j):
    return (i, j) if order_key(case, recs[i]) < order_key(case, recs[j]) else (j, i)


def rows_for(case, op):
    recs = records(case)
    adm = [orient(case, recs, i, j) for i, j in admissible(case["link_type"], case["tables"])]
    if op["op"] == "u":
        pairs = adm
    elif op["op"] == "mlabel":
        pairs = [(i, j) for i, j in adm if recs[i]["lab"] is not None and recs[i]["lab"] == recs[j]["lab"]]
    else:
        idx = {(r["__ds"], r["unique_id"]): k for k, r in enumerate(recs)}
        pairs = [orient(case, recs, idx[tuple(a)], idx[tuple(b)]) for a, b in op["pairs"]]   # lower_id_to_left_hand_side
    return [gvec(case, recs[i], recs[j]) for i, j in pairs]


def observed_matches(case):
    recs = records(case)
    n = 0
    for i, j in admissible(case["link_type"], case["tables"]):
        for rule in case["prior_op"]["rules"]:
            cols = [p.split('"')[1] for p in rule.split(" AND ")]
            if all(recs[i][c] is not None and recs[i][c] == recs[j][c] for c in cols):
                n += 1
                break
    return n


def py_freq(rows, i, v):
    num = sum(1 for g in rows if g[i] == v)
    den = sum(1 for g in rows if g[i] != -1)
    return "NO" if num == 0 else Fraction(num, den)


def py_median(vals):
    return X3.py_median(vals)


def oracle(case, op, rows, before, after):
    """Property oracle on the implementation's output (independent of Coq)."""
    fails = []
    key, tk = ("u", "tu") if op["op"] == "u" else ("m", "tm")
    for i, (cb, ca) in enumerate(zip(before["cmps"], after["cmps"])):
        for lb, la in zip(cb["levels"], ca["levels"]):
            want = py_freq(rows, i, lb["val"])
            skip_append = op["op"] == "mpairs" and lb["fixm"]
            exp_list = lb[tk] + ([] if skip_append else [want])
            got = la[tk]
            if len(got) != len(exp_list) or not all(X3.close(a, b) for a, b in zip(got, exp_list)):
                fails.append((f"{key} estimate is not the exact pair frequency",
                              {"comparison": cb["name"], "level": lb["val"], "implementation": X3.jsonable(got[len(lb[tk]):]),
                               "specification": X3.jsonable(want)}))
                continue
            nums = [x for x in exp_list if x != "NO"]
            exp_val = lb[key] if (lb["fix" + key] or not nums) else py_median(nums)
            if not X3.close(la[key], exp_val):
                fails.append((f"model {key} after the estimator is wrong (fixed flag / unobserved level / median)",
                              {"comparison": cb["name"], "level": lb["val"], "implementation": float(la[key]) if la[key] != "NO" else "NO",
                               "specification": float(exp_val) if exp_val != "NO" else "NO"}))
            other, otk = ("m", "tm") if key == "u" else ("u", "tu")
            if la[other] != lb[other] or la[otk] != lb[otk]:
                fails.append((f"{op['op']} estimator changed {other}", {"comparison": cb["name"], "level": lb["val"]}))
    if after["lam"] != before["lam"]:
        fails.append(("estimator changed probability_two_random_records_match", {}))
    return fails


# ------------------------------------------------------------------------------------------
# running the real code
# ------------------------------------------------------------------------------------------
def make_linker(case):
    return X3.make_linker(case)


def run_ops(case):
    lk = make_linker(case)
    out = []
    for k, op in enumerate(case["ops"]):
        before = X3.read_model(case, lk._settings_obj.core_model_settings, False)
        if op["op"] == "u":
            lk.training.estimate_u_using_random_sampling(max_pairs=op["max_pairs"])
        elif op["op"] == "mlabel":
            lk.training.estimate_m_from_label_column("lab")
        else:
            rows = []
            for a, b in op["pairs"]:
                d = {"unique_id_l": a[1], "unique_id_r": b[1]}
                if len(case["tables"]) > 1:
                    d.update({"source_dataset_l": a[0], "source_dataset_r": b[0]})
                rows.append(d)
            cols = (["source_dataset_l", "unique_id_l", "source_dataset_r", "unique_id_r"] if len(case["tables"]) > 1 else ["unique_id_l", "unique_id_r"])
            lk.table_management.register_table(pd.DataFrame(rows, columns=cols), f"labels_{k}", overwrite=True)
            lk.training.estimate_m_from_pairwise_labels(f"labels_{k}")
        after = X3.read_model(case, lk._settings_obj.core_model_settings, False)
        out.append((op, before, after, lk.misc.save_model_to_json()))
    return out


def run_prior(case):
    lk = make_linker(case)
    po = case["prior_op"]
    try:
        lk.training.estimate_probability_two_random_records_match(po["rules"], recall=po["recall"])
    except ValueError as e:
        if "consistent with supplied recall" in str(e):
            return None
        raise
    except ZeroDivisionError:
        return "ZD"
    saved = lk.misc.save_model_to_json()
    assert saved["probability_two_random_records_match"] == lk._settings_obj._probability_two_random_records_match
    return Fraction(saved["probability_two_random_records_match"])


def est_term(case, op, rows, before, after):
    kind = {"u": 0, "mlabel": 1, "mpairs": 2}[op["op"]]
    return f"({coq_nat(kind)}, {coq_list([X3.c_gvec(g) for g in rows], '(list Z)')}, {X3.c_model(before)}, {X3.c_model(after)})"


def recall_of(case):
    """the recall as the decimal the caller wrote (0.3 means 3/10, not the double nearest to it)"""
    return Fraction(str(case["prior_op"]["recall"]))


def prior_boundary(case, obs):
    """observed == recall x admissible pairs exactly: float rounding of that product decides the
    guard either way; such cases are counted and skipped (DESIGN Appendix A: score at a threshold)"""
    return obs == recall_of(case) * len(admissible(case["link_type"], case["tables"]))


def rule_matrices(case):
    """admissibility matrix (l before r in the engines' id order; link_only: different tables) and, per
    deterministic rule, the three-valued outcome on every ordered pair of records (NULL when a column is NULL)"""
    recs = records(case)
    n = len(recs)
    adm = [0] * (n * n)
    for i, j in admissible(case["link_type"], case["tables"]):
        a, b = orient(case, recs, i, j)
        adm[a * n + b] = 1
    mats = []
    for rule in case["prior_op"]["rules"]:
        cols = [p.split('"')[1] for p in rule.split(" AND ")]
        m = []
        for l in recs:
            for r in recs:
                outs = [None if l[c] is None or r[c] is None else l[c] == r[c] for c in cols]
                m.append(0 if any(o is False for o in outs) else 2 if any(o is None for o in outs) else 1)
        mats.append(m)
    return n, adm, mats


def prior_term(case, obs, impl):
    ns = [len(t) for t in case["tables"]]
    im = "(1%nat, 0)" if impl is None else "(2%nat, 0)" if impl == "ZD" else f"(0%nat, {coq_Q(impl)})"
    n, adm, mats = rule_matrices(case)
    rec = (f"({coq_nat(n)}, {coq_list([coq_nat(x) for x in adm], 'nat')}, "
           f"{coq_list([coq_list([coq_nat(x) for x in m], 'nat') for m in mats], '(list nat)')})")
    return (f"({coq_nat(LTCODE[case['link_type']])}, {coq_list([coq_nat(n) for n in ns], 'nat')}, {coq_Z(obs)}, "
            f"{coq_Q(recall_of(case))}, {im}, {rec})")


def prior_oracle(case, obs, impl):
    ns = [len(t) for t in case["tables"]]
    cart = len(admissible(case["link_type"], case["tables"]))
    recall = recall_of(case)
    if cart == 0:
        return [] if impl == "ZD" else [("no admissible pair: expected ZeroDivisionError", {"implementation": str(impl)})]
    if impl == "ZD":
        return [("ZeroDivisionError although admissible pairs exist", {"admissible_pairs": cart})]
    if obs > cart * recall:
        return [] if impl is None else [("recall inconsistent with the data was accepted", {"observed": obs, "admissible_pairs": cart, "recall": float(recall), "implementation": float(impl)})]
    want = Fraction(obs) / (recall * cart)
    if impl is None:
        return [("consistent recall was rejected", {"observed": obs, "admissible_pairs": cart, "recall": float(recall)})]
    if not X3.close(impl, want):
        return [("prior is not matched pairs / (recall x admissible pairs)",
                 {"observed": obs, "admissible_pairs": cart, "table_sizes": ns, "recall": float(recall), "implementation": float(impl), "specification": float(want)})]
    return []
