"""C14 correspondence: splink.blocking_analysis (count_comparisons_from_blocking_rule,
cumulative_comparisons_to_be_scored_from_blocking_rules_data, n_largest_blocks) on DuckDB and
SQLite vs the Gallina model of Model/BlockAnalysis.v (on C01's `block`) evaluated inside Coq,
plus the property oracle: the counts of a real predict() and direct recounts in Python.

Model inputs: per-rule outcome matrices and equi-join key values evaluated by an independent
DuckDB connection (as in C01), record ranks in the engine-side id order.
"""
from __future__ import annotations

import itertools

import duckdb
import pandas as pd
import sqlglot
from sqlglot import exp

from harness import splink_util as su
from harness.common import coq_bool, coq_list, coq_nat, coq_opt, coq_Z

HEADER = r"""From Coq Require Import List Bool ZArith Arith.
From Splinkv Require Import Base.TV Base.GroupBy Base.CumSum Model.Blocking Model.BlockAnalysis.
Import ListNotations.
Open Scope Z_scope.
Definition tvn (n : nat) : tv := match n with 0%nat => F | 1%nat => T | _ => U end.
Fixpoint all2 {A B} (f : A -> B -> bool) (a : list A) (b : list B) : bool :=
  match a, b with
  | [], [] => true
  | x :: a', y :: b' => f x y && all2 f a' b'
  | _, _ => false
  end.
Definition listZ_eqb (a b : list Z) : bool := all2 Z.eqb a b.
Definition blk_eqb (a b : list Z * Z * Z) : bool :=
  listZ_eqb (fst (fst a)) (fst (fst b)) && Z.eqb (snd (fst a)) (snd (fst b)) && Z.eqb (snd a) (snd b).
(* ltc: 0 = lower id left; 1 = lower id left and different datasets; 2 = no condition (two-dataset link) *)
Definition adm_of (ltc : nat) (ranks dss : list nat) (l r : nat) : bool :=
  match ltc with
  | 0%nat => Nat.ltb (nth l ranks 0%nat) (nth r ranks 0%nat)
  | 1%nat => Nat.ltb (nth l ranks 0%nat) (nth r ranks 0%nat) && negb (Nat.eqb (nth l dss 0%nat) (nth r dss 0%nat))
  | _ => true
  end.
Definition rule_of (n : nat) (m : list nat) : nat -> nat -> tv := fun l r => tvn (nth (l * n + r) m 2%nat).
Inductive case :=
| CCount (ltc n : nat) (ranks dss Lx Rx : list nat) (mat : list nat)
         (keysL keysR : list (option (list Z))) (has_keys : bool) (pre post : Z)
| CCum (ltc n : nat) (ranks dss Lx Rx : list nat) (mats : list (list nat)) (lt : clink) (sizes : list Z)
       (impl : list (Z * Z * Z * Z))
| CTop (nl : nat) (Lx Rx : list nat) (keysL keysR : list (option (list Z))) (impl : list (list Z * Z * Z)).
Definition run_case (c : case) : bool :=
  match c with
  | CCount ltc n ranks dss Lx Rx mat keysL keysR has_keys pre post =>
      Z.eqb (post_filter_count (adm_of ltc ranks dss) (rule_of n mat) Lx Rx) post &&
      Z.eqb (if has_keys then pre_filter_count (fun i => nth i keysL None) (fun i => nth i keysR None) Lx Rx
             else pre_filter_count_no_keys Lx Rx) pre
  | CCum ltc n ranks dss Lx Rx mats lt sizes impl =>
      match cumulative_comparisons_data lt sizes (adm_of ltc ranks dss) (map (rule_of n) mats) Lx Rx with
      | None => false
      | Some tab =>
          all2 (fun (m : cumrow) (i : Z * Z * Z * Z) =>
                  match i with (rc, cum, st, ca) =>
                    Z.eqb (row_count m) rc && Z.eqb (cumulative_rows m) cum && Z.eqb (start m) st
                    && Z.eqb (cartesian_count m) ca end) tab impl
      end
  | CTop nl Lx Rx keysL keysR impl =>
      let kl := fun i => nth i keysL None in let kr := fun i => nth i keysR None in
      all2 (fun m i => Z.eqb (block_size m) (block_size i)) (n_largest_blocks nl kl kr Lx Rx) impl &&
      forallb (fun i => existsb (blk_eqb i) (block_counts kl kr Lx Rx)) impl &&
      (* no block listed twice (equal-sized blocks may come in any order, but each at most once) *)
      forallb (fun i => Nat.eqb (length (filter (blk_eqb i) impl)) 1) impl
  end.
"""

EQUI_SYM = ["l.a = r.a", "l.b = r.b", "l.c = r.c", "substr(l.a,1,1) = substr(r.a,1,1)"]
EQUI_ASYM = ["l.a = r.b", "l.b = r.c"]
FILTERS = ["l.c <> r.c", "l.a is not null and r.a is not null", "(l.c = r.c or l.b = r.b)", "length(l.b) = length(r.b)",
           "coalesce(l.c, 'u') = coalesce(r.c, 'u')"]
FILTERS_ASYM = ["l.a is not null", "l.c < r.c", "length(l.a) < length(r.a)"]
COLS = ["a", "b", "c"]


def gen_rule(rng, dedupe, need_key=False):
    nk = rng.choice([1, 1, 1, 2, 2, 0]) if not need_key else rng.choice([1, 1, 2])
    pool = EQUI_SYM + (EQUI_ASYM if dedupe else [])
    parts = rng.sample(pool, nk)
    if rng.random() < 0.45 or not parts:
        parts.append(rng.choice(FILTERS + (FILTERS_ASYM if dedupe else [])))
    if rng.random() < 0.15 and not need_key:
        return " or ".join(rng.sample(EQUI_SYM, 2))          # no equi-join part can be extracted
    rng.shuffle(parts)
    return " and ".join(parts)


def gen_tables(rng, ntab):
    dom = {"a": ["x", "y", "xz", "x", None], "b": ["p", "q", "x", None], "c": ["u", "v", None, None]}
    tables = []
    for t in range(ntab):
        n = rng.randint(5, 10) if ntab == 1 else rng.randint(2, 6)
        ids = rng.sample(range(1, 15), n)
        tables.append([{"unique_id": i, **{c: rng.choice(dom[c]) for c in COLS}} for i in ids])
    for c in COLS:
        if all(r[c] is None for t in tables for r in t):
            tables[0][0][c] = dom[c][0]
    for t in tables:
        for r in t:
            r["arr"] = rng.choice([None, [], ["u"], ["u", "v"], ["v", "w"], ["w"], ["u", "u"]])
            r["arr2"] = rng.choice([None, [], ["p"], ["p", "q"], ["q", "p"], ["q", "r", "p"], ["r"]])
    tables[0][0]["arr"] = ["u", "w"]
    tables[0][0]["arr2"] = ["q", "p"]
    return tables


def gen_case(rng, backend):
    lt = rng.choice(["dedupe_only", "link_only", "link_and_dedupe"])
    ntab = 1 if lt == "dedupe_only" else rng.choice([2, 2, 3])
    names = ["ta", "tb", "tc"][:ntab]
    tables = gen_tables(rng, ntab)
    # rules not symmetric in l/r are generated for every link type: since /repo 3fd959ab the tables registered
    # without aliases get source dataset names that sort in input order, i.e. the orientation of the Linker
    # (aliases ta < tb < tc) and of the model (ranks of name-__-uid)
    dedupe = True
    rule = gen_rule(rng, dedupe)
    rules = [gen_rule(rng, dedupe) for _ in range(rng.choice([1, 2, 2, 3, 3, 4]))]
    if backend == "duckdb":
        if rng.random() < 0.3:          # salting does not change which pairs a rule produces
            rule = {"blocking_rule": rule, "salting_partitions": rng.choice([2, 3, 5])}
        # array-exploding rules: cumulative function only (count_comparisons ignores arrays_to_explode: known
        # finding); our plain rules never mention an array column (KF-C01-exploding-preceded stays out)
        for k in range(len(rules)):
            if rng.random() < 0.3:
                w = rng.random()
                if w < 0.35:
                    txt = rng.choice(["l.arr = r.arr AND l.arr2 = r.arr2", "l.arr2 = r.arr2 AND l.arr = r.arr AND l.b = r.b"])
                    rules[k] = {"blocking_rule": txt, "arrays_to_explode": rng.choice([["arr", "arr2"], ["arr2", "arr"]])}
                elif w < 0.6:
                    rules[k] = {"blocking_rule": "l.arr2 = r.arr2", "arrays_to_explode": ["arr2"]}
                else:
                    txt = rng.choice(["l.arr = r.arr", "l.arr = r.arr AND l.a = r.a", "l.arr = r.arr OR l.b = r.b"])
                    rules[k] = {"blocking_rule": txt, "arrays_to_explode": ["arr"]}
    return {"backend": backend, "link_type": lt, "names": names, "tables": tables,
            "rule": rule, "rules": rules,
            "top_rule": gen_rule(rng, dedupe, need_key=True), "n_largest": rng.choice([1, 2, 3, 5]),
            "max_rows_limit": rng.choice([None, None, 10**6, 10**4]),
            # a sequence on ONE DatabaseAPI: the tables (registered by name) are replaced and the same calls repeated
            "sequence": ({"tables2": gen_tables(rng, ntab), "cleanup": rng.random() < 0.5} if rng.random() < 0.45 else None)}


def rule_sql(r):
    return r if isinstance(r, str) else r["blocking_rule"]


def is_exploding(r):
    return isinstance(r, dict) and "arrays_to_explode" in r


def frames_of(case):
    out = []
    arrays = case["backend"] == "duckdb" and "arr" in case["tables"][0][0]
    for rows in case["tables"]:
        d = pd.DataFrame(rows, columns=["unique_id"] + COLS + (["arr", "arr2"] if arrays else []))
        for c in COLS:
            d[c] = d[c].astype("string")
        out.append(d)
    return out


def analysis_calls(api, case, parts=("count", "cum", "top")):
    from splink.blocking_analysis import (
        count_comparisons_from_blocking_rule,
        cumulative_comparisons_to_be_scored_from_blocking_rules_data,
        n_largest_blocks,
    )
    tabs = list(case["names"])
    res = {}
    kw = {} if case.get("max_rows_limit") is None else {"max_rows_limit": case["max_rows_limit"]}   # never hit
    if "count" in parts:
        res["count"] = count_comparisons_from_blocking_rule(table_or_tables=tabs, blocking_rule=case["rule"],
                                                            link_type=case["link_type"], db_api=api, **kw)
    if "cum" in parts:
        res["cum"] = cumulative_comparisons_to_be_scored_from_blocking_rules_data(
            table_or_tables=tabs, blocking_rules=list(case["rules"]), link_type=case["link_type"], db_api=api, **kw
        ).to_dict(orient="records")
    if "top" in parts:
        res["top"] = n_largest_blocks(table_or_tables=tabs, blocking_rule=case["top_rule"], link_type=case["link_type"],
                                      db_api=api, n_largest=case["n_largest"]).as_record_dict()
        res["top_keys"] = count_comparisons_from_blocking_rule(table_or_tables=tabs, blocking_rule=case["top_rule"],
                                                               link_type=case["link_type"], db_api=api,
                                                               compute_post_filter_count=False)["equi_join_conditions_identified"]
    return res


def run_history(case):
    """-> [(case_i, res_i, parts_i)]: the analysis calls on tables registered BY NAME on one DatabaseAPI and,
    if the case has a sequence, the same calls again after the contents of those tables were replaced
    (with or without delete_tables_created_by_splink_from_db() in between)."""
    api = su.make_api(case["backend"])
    for name, d in zip(case["names"], frames_of(case)):
        api.register_table(d, name)
    all_parts = ("count", "cum", "top")
    out = [(case, analysis_calls(api, case), all_parts)]
    seq = case.get("sequence")
    if seq:
        case2 = dict(case, tables=seq["tables2"], sequence=None, step={"tables_replaced": True, "cleanup": seq["cleanup"]})
        for name, d in zip(case2["names"], frames_of(case2)):
            api.register_table(d, name, overwrite=True)
        if seq["cleanup"]:
            api.delete_tables_created_by_splink_from_db()
        # with or without a cleanup call, all three functions must answer for the CURRENT contents
        # (fixed in /repo 16fdbf82: FX-C14-stale-after-table-replaced; witness replayed in c14.py)
        parts = all_parts
        out.append((case2, analysis_calls(api, case2, parts), parts))
    return out


def run_impl(case):
    return run_history(case)[-1][1]


# ---------------------------------------------------------------------------- independent evaluation
class Eval:
    """all records in one DuckDB table with a running index; evaluates rules and key expressions"""

    def __init__(self, case):
        self.case = case
        rows = []
        for name, tab in zip(case["names"], case["tables"]):
            for r in tab:
                rows.append({"__i": len(rows), "source_dataset": name, **r})
        self.rows = rows
        self.n = len(rows)
        for r in rows:
            r.setdefault("arr", None)
            r.setdefault("arr2", None)
        if not any(r["arr"] for r in rows):
            rows[0] = dict(rows[0], arr=["zz"])          # typing only (DuckDB types an all-NULL column as INT32)
        if not any(r["arr2"] for r in rows):
            rows[0] = dict(rows[0], arr2=["zz"])
        d = pd.DataFrame(rows)
        for c in COLS:
            d[c] = d[c].astype("string")
        self.con = duckdb.connect()
        self.con.register("d0", d)
        self.con.execute("create table t as select __i, source_dataset, unique_id, cast(a as varchar) a, "
                         "cast(b as varchar) b, cast(c as varchar) c, cast(arr as varchar[]) arr, "
                         "cast(arr2 as varchar[]) arr2 from d0")

    def matrix(self, rule):
        if is_exploding(rule):
            # TRUE on some pair of exploded variants (several arrays: cross product of their elements)
            src = "t"
            for col in rule["arrays_to_explode"]:
                other = ", ".join(x for x in ("__i", "source_dataset", "unique_id", "a", "b", "c", "arr", "arr2") if x != col)
                src = f"(select {other}, unnest({col}) as {col} from {src})"
            q = (f"with u as (select * from {src}) select l.__i, r.__i, max(case when ({rule['blocking_rule']}) then 1 else 0 end) "
                 "from u l cross join u r group by 1,2")
            res = {(a, b): v for a, b, v in self.con.execute(q).fetchall()}
            return [res.get((i, j), 0) for i in range(self.n) for j in range(self.n)]
        rule = rule_sql(rule)
        q = f"select l.__i, r.__i, ({rule}) from t l cross join t r"
        res = {(a, b): v for a, b, v in self.con.execute(q).fetchall()}
        return [2 if res[(i, j)] is None else int(bool(res[(i, j)])) for i in range(self.n) for j in range(self.n)]

    def split_agrees(self, rule, equi, filt):
        parts = [p for p in (equi, filt) if p]
        rebuilt = " and ".join(f"({p})" for p in parts) if parts else "true"
        q = (f"select count(*) from t l cross join t r where coalesce(({rule}), false) <> coalesce(({rebuilt}), false)")
        return self.con.execute(q).fetchone()[0] == 0

    def keys(self, equi_text):
        """-> (keysL, keysR) per record: tuple of value ids or None when a component is NULL"""
        if not equi_text:
            return None
        tree = sqlglot.parse_one(equi_text, read="duckdb")
        conj = list(tree.flatten()) if isinstance(tree, exp.And) else [tree]
        lex, rex = [], []
        for e in conj:
            if not isinstance(e, exp.EQ):
                raise ValueError("equi-join condition is not an equality: " + e.sql())
            for side, acc in ((e.left, lex), (e.right, rex)):
                s = side.copy()
                for c in s.find_all(exp.Column):
                    c.set("table", None)
                acc.append(s.sql(dialect="duckdb"))
        vals = set()
        per = []
        for exprs in (lex, rex):
            sel = ", ".join(f"({x}) as k{i}" for i, x in enumerate(exprs))
            rows = self.con.execute(f"select __i, {sel} from t order by __i").fetchall()
            per.append([tuple(r[1:]) for r in rows])
            vals |= {v for r in rows for v in r[1:] if v is not None}
        ids = {v: i for i, v in enumerate(sorted(vals, key=str))}
        conv = lambda tup: None if any(v is None for v in tup) else [ids[v] for v in tup]  # noqa: E731
        return [conv(t) for t in per[0]], [conv(t) for t in per[1]], ids


def ranks_of(case, ev):
    if case["link_type"] == "dedupe_only":
        keys = [r["unique_id"] for r in ev.rows]
    else:
        keys = [f"{r['source_dataset']}-__-{r['unique_id']}" for r in ev.rows]
    assert len(set(keys)) == len(keys)
    order = sorted(range(ev.n), key=lambda i: keys[i])
    rank = [0] * ev.n
    for p, i in enumerate(order):
        rank[i] = p
    dss = [case["names"].index(r["source_dataset"]) for r in ev.rows]
    return rank, dss


def sides(case, ev, two_dataset_split):
    idx = list(range(ev.n))
    if two_dataset_split and case["link_type"] == "link_only" and len(case["names"]) == 2:
        L = [i for i in idx if ev.rows[i]["source_dataset"] == case["names"][0]]
        R = [i for i in idx if ev.rows[i]["source_dataset"] == case["names"][1]]
        return L, R, 2
    return idx, idx, (1 if case["link_type"] == "link_only" else 0)


def adm_py(ltc, rank, dss, l, r):
    if ltc == 0:
        return rank[l] < rank[r]
    if ltc == 1:
        return rank[l] < rank[r] and dss[l] != dss[r]
    return True


def predict_counts(case, rules):
    import splink.comparison_library as cl
    from splink import SettingsCreator
    s = SettingsCreator(link_type=case["link_type"], comparisons=[cl.ExactMatch("a")],
                        blocking_rules_to_generate_predictions=list(rules))
    aliases = case["names"] if len(case["names"]) > 1 else None
    lk = su.linker(frames_of(case), s, case["backend"], aliases=aliases)
    out = {}
    for r in lk.inference.predict().as_record_dict():
        k = int(r.get("match_key", 0))
        out[k] = out.get(k, 0) + 1
    return out


def nl(xs):
    return coq_list([coq_nat(x) for x in xs], "nat")


def keys_term(ks):
    return coq_list([coq_opt(k, lambda t: coq_list([coq_Z(v) for v in t], "Z")) for k in ks], "(option (list Z))")


def build(case, res, parts=("count", "cum", "top")):
    """-> terms, labels, problems[(kind, detail)], obligations[(name, ok, detail)]"""
    ev = Eval(case)
    try:
        return _build(case, res, parts, ev)
    finally:
        ev.con.close()


def _build(case, res, parts, ev):
    rank, dss = ranks_of(case, ev)
    terms, labels, bad, obl = [], [], [], []
    if "count" in parts:
        _build_count(case, res, ev, rank, dss, terms, labels, bad, obl)
    if "cum" in parts:
        _build_cum(case, res, ev, rank, dss, terms, labels, bad)
    if "top" in parts:
        _build_top(case, res, ev, terms, labels, bad)
    return terms, labels, bad, obl


def _build_count(case, res, ev, rank, dss, terms, labels, bad, obl):
    # ---------------- count_comparisons_from_blocking_rule
    cnt = res["count"]
    equi, filt = cnt["equi_join_conditions_identified"], cnt["filter_conditions_identified"]
    obl.append(("equi-join AND filter decomposition is equivalent to the rule on all pairs",
                ev.split_agrees(rule_sql(case["rule"]), equi, filt), f"{case['rule']} -> [{equi}] / [{filt}]"))
    L, R, ltc = sides(case, ev, True)
    mat = ev.matrix(case["rule"])
    ks = ev.keys(equi)
    pre, post = int(cnt["number_of_comparisons_generated_pre_filter_conditions"]), int(cnt["number_of_comparisons_to_be_scored_post_filter_conditions"])
    kl, kr = (ks[0], ks[1]) if ks else ([None] * ev.n, [None] * ev.n)
    terms.append(f"(CCount {coq_nat(ltc)} {coq_nat(ev.n)} {nl(rank)} {nl(dss)} {nl(L)} {nl(R)} {nl(mat)} "
                 f"{keys_term(kl)} {keys_term(kr)} {coq_bool(ks is not None)} {coq_Z(pre)} {coq_Z(post)})")
    labels.append("count")
    want_post = sum(predict_counts(case, [case["rule"]]).values())
    if post != want_post:
        bad.append(("post_filter", f"rule {case['rule']!r}: post-filter count {post} but predict() scores {want_post} pairs"))
    if ks:
        want_pre = sum(1 for l in L for r in R if kl[l] is not None and kl[l] == kr[r])
    else:
        want_pre = len(L) * len(R)
    if pre != want_pre:
        bad.append(("pre_filter", f"rule {case['rule']!r} (keys [{equi}]): pre-filter count {pre} but sum over key values of left x right block sizes is {want_pre}"))


def _build_cum(case, res, ev, rank, dss, terms, labels, bad):
    # ---------------- cumulative
    Lc, Rc, ltcc = sides(case, ev, False)
    mats = [ev.matrix(r) for r in case["rules"]]
    impl = [(int(x["row_count"]), int(x["cumulative_rows"]), int(x["start"]), int(x["cartesian"])) for x in res["cum"]]
    ltn = {"dedupe_only": "CDedupe", "link_only": "CLinkOnly", "link_and_dedupe": "CLinkAndDedupe"}[case["link_type"]]
    terms.append(f"(CCum {coq_nat(ltcc)} {coq_nat(ev.n)} {nl(rank)} {nl(dss)} {nl(Lc)} {nl(Rc)} "
                 f"{coq_list([nl(m) for m in mats], '(list nat)')} {ltn} "
                 f"{coq_list([coq_Z(len(t)) for t in case['tables']], 'Z')} "
                 + coq_list([f"({coq_Z(a)}, {coq_Z(b)}, {coq_Z(c)}, {coq_Z(d)})" for a, b, c, d in impl], "(Z * Z * Z * Z)") + ")")
    labels.append("cumulative")
    pc = predict_counts(case, case["rules"])
    adm_pairs = sum(1 for l in range(ev.n) for r in range(ev.n) if adm_py(ltcc, rank, dss, l, r))
    if [int(x["match_key"]) for x in res["cum"]] != list(range(len(case["rules"]))):
        bad.append(("cumulative", f"match keys {[x['match_key'] for x in res['cum']]}"))
    for x in res["cum"]:
        k = int(x["match_key"])
        if not (0 <= k < len(case["rules"])) or x["blocking_rule"] != rule_sql(case["rules"][k]):
            bad.append(("cumulative", f"row with match_key {x['match_key']} is labelled with rule {x['blocking_rule']!r}; "
                                      f"rule {k} is {rule_sql(case['rules'][k]) if 0 <= k < len(case['rules']) else None!r}"))
    run = 0
    for k, (rc, cum, st, ca) in enumerate(impl):
        if rc != pc.get(k, 0):
            bad.append(("cumulative", f"rules {case['rules']}: row_count of rule {k} is {rc} but predict() scores {pc.get(k, 0)} pairs with match_key {k}"))
        run += rc
        if cum != run or st != run - rc:
            bad.append(("cumulative", f"rule {k}: cumulative_rows {cum} start {st} but running sum is {run}"))
        if ca != adm_pairs:
            bad.append(("cartesian", f"cartesian {ca} but there are {adm_pairs} admissible pairs"))


def _build_top(case, res, ev, terms, labels, bad):
    # ---------------- n largest blocks
    kt = ev.keys(res["top_keys"])
    Lt, Rt, _ = sides(case, ev, True)
    if kt is None:
        bad.append(("n_largest", f"no equi-join keys identified for {case['top_rule']!r}"))
    else:
        klt, krt, ids = kt
        nk = len(next(k for k in klt + krt if k is not None)) if any(k is not None for k in klt + krt) else 0
        impl_t = []
        for x in res["top"]:
            key = [x[f"key_{i}"] for i in range(nk)]
            impl_t.append(([ids.get(v, -1) for v in key], int(x["count_l"]), int(x["count_r"])))
        terms.append(f"(CTop {coq_nat(case['n_largest'])} {nl(Lt)} {nl(Rt)} {keys_term(klt)} {keys_term(krt)} "
                     + coq_list([f"({coq_list([coq_Z(v) for v in k], 'Z')}, {coq_Z(a)}, {coq_Z(b)})" for k, a, b in impl_t],
                                "(list Z * Z * Z)") + ")")
        labels.append("n_largest")
        blocks = {}
        for l in Lt:
            if klt[l] is not None:
                blocks.setdefault(tuple(klt[l]), [0, 0])[0] += 1
        for r in Rt:
            if krt[r] is not None:
                blocks.setdefault(tuple(krt[r]), [0, 0])[1] += 1
        blocks = {k: v for k, v in blocks.items() if v[0] and v[1]}
        sizes = sorted((a * b for a, b in blocks.values()), reverse=True)
        got = [a * b for _, a, b in impl_t]
        if got != sizes[:case["n_largest"]]:
            bad.append(("n_largest", f"rule {case['top_rule']!r}: listed block sizes {got} but the largest are {sizes[:case['n_largest']]}"))
        if len({tuple(k) for k, _, _ in impl_t}) != len(impl_t):
            bad.append(("n_largest", f"rule {case['top_rule']!r}: a block is listed twice: {impl_t}"))
        for k, a, b in impl_t:
            if blocks.get(tuple(k)) != [a, b]:
                bad.append(("n_largest", f"listed block {k} ({a} x {b}) is not a block of the data ({blocks.get(tuple(k))})"))
        for x in res["top"]:
            if int(x["block_count"]) != int(x["count_l"]) * int(x["count_r"]):
                bad.append(("n_largest", f"block_count {x['block_count']} != {x['count_l']} * {x['count_r']}"))


# ---------------------------------------------------------------------------- known finding witness
WITNESS = {"link_type": "link_and_dedupe", "rule": "l.a is not null", "names": ["ta", "tb", "tc"],
           "tables": [[{"unique_id": 3, "a": "x", "b": None, "c": None}], [{"unique_id": 7, "a": None, "b": None, "c": None}],
                      [{"unique_id": 12, "a": "x", "b": None, "c": None}]]}


def replay_witness(backend="duckdb", calls=10):
    """-> (reproduced, counts, predict_count)"""
    from splink.blocking_analysis import count_comparisons_from_blocking_rule
    case = dict(WITNESS, backend=backend)
    frames = []
    for rows in case["tables"]:
        d = pd.DataFrame(rows, columns=["unique_id", "a"])
        d["a"] = d["a"].astype("string")
        frames.append(d)
    counts = []
    for _ in range(calls):
        api = su.make_api(backend)
        r = count_comparisons_from_blocking_rule(table_or_tables=frames, blocking_rule=case["rule"],
                                                 link_type=case["link_type"], db_api=api)
        counts.append(int(r["number_of_comparisons_to_be_scored_post_filter_conditions"]))
    import splink.comparison_library as cl
    from splink import SettingsCreator
    s = SettingsCreator(link_type=case["link_type"], comparisons=[cl.ExactMatch("a")],
                        blocking_rules_to_generate_predictions=[case["rule"]])
    lk = su.linker(frames, s, backend, aliases=case["names"])
    want = len(lk.inference.predict().as_record_dict())
    return any(c != want for c in counts), counts, want


WITNESS_EXPLODE = {"link_type": "dedupe_only", "rule": {"blocking_rule": "l.arr = r.arr", "arrays_to_explode": ["arr"]},
                   "arr_by_uid_mod_6": [["u"], ["u", "v"], ["v", "w"], None, [], ["w", "u"]], "n": 8}


def replay_witness_explode():
    """count_comparisons_from_blocking_rule on an exploding rule vs predict()
    -> (reproduced, (pre, post), predict count, (pre, post) of the known wrong answer = array equality)"""
    import splink.comparison_library as cl
    from splink import SettingsCreator
    from splink.blocking_analysis import count_comparisons_from_blocking_rule
    w = WITNESS_EXPLODE
    arrs = [w["arr_by_uid_mod_6"][i % 6] for i in range(w["n"])]
    d = pd.DataFrame([{"unique_id": i, "a": "x", "arr": arrs[i]} for i in range(w["n"])])
    d["a"] = d["a"].astype("string")
    r = count_comparisons_from_blocking_rule(table_or_tables=[d], blocking_rule=w["rule"], link_type=w["link_type"],
                                             db_api=su.make_api("duckdb"))
    got = (int(r["number_of_comparisons_generated_pre_filter_conditions"]), int(r["number_of_comparisons_to_be_scored_post_filter_conditions"]))
    s = SettingsCreator(link_type=w["link_type"], comparisons=[cl.ExactMatch("a")], blocking_rules_to_generate_predictions=[w["rule"]])
    want = len(su.linker([d], s, "duckdb").inference.predict().as_record_dict())
    # the recorded defect: arrays_to_explode ignored, arrays compared as whole values
    eq = lambda a, b: a is not None and b is not None and a == b  # noqa: E731
    known_wrong = (sum(1 for a in arrs for b in arrs if eq(a, b)),
                   sum(1 for i in range(len(arrs)) for j in range(i + 1, len(arrs)) if eq(arrs[i], arrs[j])))
    return got[1] != want, got, want, known_wrong


WITNESS_STALE = {"link_type": "dedupe_only", "rule": "l.a = r.a", "table_name": "tt",
                 "first": ["x", "x", "y", "z"], "second": ["x", "x", "x", "x", "x", "y"]}


def replay_witness_stale(backend="duckdb"):
    """named table replaced on one DatabaseAPI, no cleanup -> (reproduced, first, second, fresh)"""
    from splink.blocking_analysis import cumulative_comparisons_to_be_scored_from_blocking_rules_data, n_largest_blocks
    w = WITNESS_STALE

    def frame(vals):
        d = pd.DataFrame([{"unique_id": i, "a": v} for i, v in enumerate(vals)])
        d["a"] = d["a"].astype("string")
        return d

    def run(api):
        d = cumulative_comparisons_to_be_scored_from_blocking_rules_data(
            table_or_tables=[w["table_name"]], blocking_rules=[w["rule"]], link_type=w["link_type"], db_api=api).to_dict(orient="records")
        n = n_largest_blocks(table_or_tables=[w["table_name"]], blocking_rule=w["rule"], link_type=w["link_type"], db_api=api,
                             n_largest=1).as_record_dict()
        return [int(d[0]["row_count"]), int(d[0]["cartesian"]), int(n[0]["block_count"])]
    api = su.make_api(backend)
    api.register_table(frame(w["first"]), w["table_name"])
    first = run(api)
    api.register_table(frame(w["second"]), w["table_name"], overwrite=True)
    second = run(api)
    fresh_api = su.make_api(backend)
    fresh_api.register_table(frame(w["second"]), w["table_name"])
    want = run(fresh_api)
    return second != want, first, second, want
