"""C03, tie of the Python-side bookkeeping by translation (translators/c03_py.py).

Every run regenerates coq/gen/C03_py_gen.v from /repo's current source and compiles one small Coq
file per NAMED obligation stating that the regenerated definition is the modelled one (on the
whole domain, or on an exhaustive small grid for the max-change fold).  The dictionary plumbing
of m_u_records_to_parameters.py is not translated: the real functions are executed on an
exhaustive small grid and compared, inside Coq, with the model's lookup / KeyError branch."""
from __future__ import annotations

import itertools
from concurrent.futures import ThreadPoolExecutor
from fractions import Fraction
from types import SimpleNamespace

from harness import c03_x as X
from harness.common import COQ_FLAGS, GEN, Ctx, coq_bool, coq_list, coq_Q, coq_Z, sh

NOT_OBS = X.NOT_OBS


def translation_stage(ctx: Ctx):
    from translators import c03_py as T
    txt, fails = T.generate()
    for frag, why in fails:
        ctx.obligation(f"T-py translate {frag}", False, why)
        ctx.violation(f"Python bookkeeping of EM training no longer has a shape the translator understands: {why}",
                      {"broken": f"T-py translate {frag}", "detail": why}, {"py_bookkeeping": frag}, found_input=False)
    ok, out = ctx.coqc_text("C03_py_gen", txt)
    ctx.checker_cmds.append("coqc gen/C03_py_gen.v + gen/C03_py_ob_*.v (regenerated from expectation_maximisation.py, comparison_level.py, linker.py)")
    if not ctx.obligation("T-py generated definitions compile", ok, out[-800:]):
        if not fails:
            ctx.violation("regenerated Python bookkeeping does not type-check in Coq", {"broken": "gen/C03_py_gen.v", "detail": out[-800:]},
                          {"py_bookkeeping": "gen"}, found_input=False)
        return
    failed_frags = " ".join(f for f, _ in fails)
    obs = T.obligations_text()

    def one(item):
        name, body = item
        f = GEN / f"C03_py_ob_{name}.v"
        f.write_text(T.OB_HEADER + body)
        rc, o, _ = sh(["timeout", "300", "coqc", *COQ_FLAGS, str(f)], cwd=str(GEN.parent), timeout=330)
        return name, rc == 0, o

    with ThreadPoolExecutor(max_workers=8) as ex:
        results = list(ex.map(one, obs.items()))
    ctx.cov["py_obligations"] = [n for n, _, _ in results]
    for name, okk, o in results:
        if ctx.obligation(f"T-py {name}", okk, o[-600:]):
            continue
        if "was not found" in o and failed_frags:
            continue        # consequence of an untranslatable fragment already reported
        detail = {"broken": f"T-py {name}", "coq": o[-600:]}
        cx = T.counterexample_text(name)
        if cx:
            okc, outc = ctx.coqc_text(f"C03_py_cex_{name}", T.OB_HEADER + cx)
            detail["difference_found_by_evaluation"] = " ".join(outc.split())[-700:]
        ctx.violation(f"regenerated Python bookkeeping differs from the model: obligation {name}", detail, {"py_bookkeeping": name}, found_input=False)


# ------------------------------------------------------------------------------------------
# exhaustive small grid for the dictionary plumbing (real functions executed)
# ------------------------------------------------------------------------------------------
GRID_HEADER = X.HEADER + r"""
Definition pv_eqb (a b : pval) : bool :=
  match a, b with Val x, Val y => Qeq_bool x y | NotObserved, NotObserved => true | _, _ => false end.
(* flags, proportions table (value, m, u), level, implementation's m and u after populate_m_u_from_lookup,
   implementation's appended m / u estimate *)
Definition grid_case (c : flags * list counts_row * level * pval * pval * pval * pval) : bool :=
  match c with (fl, t, l, im, iu, am, au) =>
    pv_eqb (new_m fl t l) im && pv_eqb (new_u fl t l) iu &&
    pv_eqb (new_m (FL false false false) t (L (lv_val l) (lv_m l) (lv_u l) false false None)) am &&
    pv_eqb (new_u (FL false false false) t (L (lv_val l) (lv_m l) (lv_u l) false false None)) au
  end.
"""


def lookup_grid_stage(ctx: Ctx):
    from splink.internals.expectation_maximisation import populate_m_u_from_lookup
    from splink.internals.m_u_records_to_parameters import (
        append_m_probability_to_comparison_level_trained_probabilities as app_m,
        append_u_probability_to_comparison_level_trained_probabilities as app_u,
        m_u_records_to_lookup_dict,
    )
    vals = [-1, 0, 1, 2]
    probs = {-1: (0.5, 0.25), 0: (0.25, 0.5), 1: (0.125, 0.75), 2: (0.625, 0.375)}
    terms = []
    for k in range(len(vals) + 1):
        for present in itertools.combinations(vals, k):
            recs = [{"output_column_name": "a", "comparison_vector_value": v, "m_probability": probs[v][0], "u_probability": probs[v][1]} for v in present]
            recs += [{"output_column_name": "b", "comparison_vector_value": 1, "m_probability": 0.875, "u_probability": 0.0625}]
            lk = m_u_records_to_lookup_dict(recs)
            for fm, fu, lfm, lfu in itertools.product([False, True], repeat=4):
                for cvv in (0, 1, 2):
                    got = {}

                    def mk():
                        cl = SimpleNamespace(_fix_m_probability=lfm, _fix_u_probability=lfu, comparison_vector_value=cvv, label_for_charts="x",
                                             _m_warning_sent=True, _u_warning_sent=True, m_probability=0.0625, u_probability=0.9375)
                        cl._add_trained_m_probability = lambda v, d: got.__setitem__("am", v)
                        cl._add_trained_u_probability = lambda v, d: got.__setitem__("au", v)
                        return cl
                    cl = mk()
                    fixed = {k2 for k2, b in (("m", fm), ("u", fu)) if b}
                    populate_m_u_from_lookup(fixed, cl, "a", lk)
                    app_m(mk(), lk, "a", "d")
                    app_u(mk(), lk, "a", "d")

                    def pv(x):
                        return "NotObserved" if isinstance(x, str) and x == NOT_OBS else f"(Val {coq_Q(Fraction(x))})"
                    t = coq_list([f"({coq_Z(v)}, {coq_Q(Fraction(probs[v][0]))}, {coq_Q(Fraction(probs[v][1]))})" for v in present], "counts_row")
                    lvl = f"(L {coq_Z(cvv)} (Val {coq_Q(Fraction(0.0625))}) (Val {coq_Q(Fraction(0.9375))}) {coq_bool(lfm)} {coq_bool(lfu)} None)"
                    terms.append(f"(FL {coq_bool(fm)} {coq_bool(fu)} false, {t}, {lvl}, {pv(cl.m_probability)}, {pv(cl.u_probability)}, {pv(got['am'])}, {pv(got['au'])})")
    bad, errs = ctx.eval_cases("C03_pygrid", GRID_HEADER, terms, "grid_case", shard=400)
    ctx.cov["py_lookup_grid_cases"] = len(terms)
    ctx.cov["evaluations"] += len(terms)
    ok = ctx.obligation(f"T-py py_lookup_grid: m_u_records_to_lookup_dict + populate_m_u_from_lookup + append_*_trained_probabilities = model lookup / KeyError branch on {len(terms)} grid points",
                        not bad and not errs, (errs or [""])[0][-500:])
    if not ok:
        ctx.violation("lookup-dictionary bookkeeping (m_u_records_to_parameters.py / populate_m_u_from_lookup) differs from the model on the exhaustive grid",
                      {"broken": "T-py py_lookup_grid", "first_bad_grid_points": [terms[i] for i in bad[:3]], "errors": errs[:1]},
                      {"py_bookkeeping": "py_lookup_grid"}, found_input=bool(bad))


def stage(ctx: Ctx):
    ctx.trusted.append("translators/c03_py.py (whitelisted ast shapes of populate_m_u_from_lookup, maximisation_step, the EM loop and stop test, "
                       "_max_change_in_parameters_comparison_levels, the not-observed readers, _trained_*_median, _populate_m_u_from_trained_values); "
                       "`statistics.median` is mapped to the model's median (its semantics are tied by X)")
    translation_stage(ctx)
    lookup_grid_stage(ctx)
