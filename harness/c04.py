"""C04  Direct estimators equal exact pair frequencies.

 P  theorems in Properties/C04.v (u / m estimates = exact frequencies over the non-null pairs,
    unobserved levels get no estimate, fixed flags respected, cartesian formula = number of
    admissible pairs for any number of tables, prior formula and recall guard, label
    orientation irrelevant; full sample when max_pairs >= admissible pairs, over R).
 T  translators/c04_cartesian.py regenerates `cartesian` from misc.py:calculate_cartesian
    (fail-closed AST walk); the generated definition must be convertible with the model's and
    the counting theorem is re-checked for it.
 X  real estimate_u_using_random_sampling (full sample), estimate_m_from_label_column,
    estimate_m_from_pairwise_labels, estimate_probability_two_random_records_match on DuckDB and
    SQLite vs the Gallina estimators evaluated in Coq on pair lists computed by the harness itself.
"""
from __future__ import annotations

import json
import re
from fractions import Fraction

from harness import c03_x as X3
from harness import c04_x as X
from harness.common import Ctx, REPO, git_blob

SOURCES = ["splink/internals/estimate_u.py", "splink/internals/m_training.py", "splink/internals/m_from_labels.py",
           "splink/internals/block_from_labels.py", "splink/internals/lower_id_on_lhs.py", "splink/internals/misc.py",
           "splink/internals/linker_components/training.py", "splink/internals/expectation_maximisation.py"]


def translator_stage(ctx: Ctx):
    from translators import c04_cartesian as T
    try:
        br = T.translate()
    except T.Untranslatable as e:
        ctx.obligation("translate calculate_cartesian", False, str(e))
        return {"untranslatable": str(e)}
    ok, out = ctx.coqc_text("C04_cartesian", T.coq_text(br))
    ctx.checker_cmds.append("coqc gen/C04_cartesian.v (generated from misc.py:calculate_cartesian)")
    closed = "Closed under the global context" in out
    ctx.obligation("generated calculate_cartesian is convertible with Model/Estimators.cartesian; counting theorem holds for it (closed)", ok and closed, out[-800:])
    ctx.cov["cartesian_generated"] = br
    if ok and closed:
        return None
    # search for table sizes on which the formula the code now uses is not the number of admissible pairs
    ok2, out2 = ctx.coqc_text("C04_cartesian_search", T.search_text(br))
    cex = re.findall(r"\((\d+), \[([\d; ]*)\]\)", " ".join(out2.split())) if ok2 else []
    return {"tie_failed": out[-600:], "counterexamples": [(int(k), [int(x) for x in ns.split(";") if x.strip()]) for k, ns in cex][:5]}


def sample_stage(ctx: Ctx):
    """T: the sample-proportion arithmetic of estimate_u.py regenerated and tied (by conversion) to the
    model functions on which C04_full_sample_when_enough_pairs is stated."""
    from translators import c04_sample as T
    try:
        tr = T.translate()
    except T.Untranslatable as e:
        ctx.obligation("translate the sample-proportion formulae of estimate_u.py", False, str(e))
        ctx.violation("estimate_u.py sample-proportion code no longer has a shape the translator understands: " + str(e),
                      {"broken": "T c04_sample", "detail": str(e)}, {"estimator": "u", "failure": "translator"}, found_input=False)
        return
    ok, out = ctx.coqc_text("C04_sample", T.coq_text(tr))
    ctx.checker_cmds.append("coqc gen/C04_sample.v (generated from estimate_u.py)")
    ctx.cov["sample_proportion_generated"] = tr
    if not ctx.obligation("generated rows_needed / proportion_link_only / sample_proportion are convertible with Model/Estimators.v", ok, out[-800:]):
        ctx.violation("the sample-proportion formulae of estimate_u.py differ from the model (C04_full_sample_when_enough_pairs no longer applies to the code)",
                      {"broken": "T c04_sample tie lemmas", "generated": tr, "coq": out[-600:]}, {"estimator": "u", "failure": "sample proportion"}, found_input=False)


def zero_pairs_witness(ctx: Ctx, pterms, pmetas):
    """a single record: no admissible pair, the estimator raises ZeroDivisionError (modelled as PriorZeroDivision)"""
    for backend in ("duckdb", "sqlite"):
        case = X.gen_case(__import__("random").Random("zero-pairs"), backend)
        case["link_type"], case["tables"] = "dedupe_only", [case["tables"][0][:1]]
        case["ops"] = []
        obs = X.observed_matches(case)
        impl = X.run_prior(case)
        pterms.append(X.prior_term(case, obs, impl))
        pmetas.append((case, obs, impl, X.prior_oracle(case, obs, impl)))
        ctx.count_case(("zero-pairs", backend), False, {"backend": backend, "op": "prior", "tables": [1], "implementation": str(impl)})
        ctx.hist("estimator", "prior (no admissible pair)")


def features(case, kind, fails):
    return {"estimator": kind, "link_type": case["link_type"], "backend": case["backend"], "tables": len(case["tables"]),
            "failure": fails[0][0] if fails else "model-disagreement"}


def reproducibility_test(ctx: Ctx):
    """TEST: with a seed the sampled estimate (below full sample) is the same in two fresh runs."""
    import random
    rng = random.Random(f"c04-repro-{ctx.seed}")
    rows = [dict(unique_id=i, a=rng.choice(["xa", "xb", "ya", None]), c=rng.choice(["s", "t", "u"]), lab=None) for i in range(60)]
    comps, truths = [], []
    for c in ("a", "c"):
        cd, tr = X3.gen_comparison(rng, c, "a" if c == "c" else "c", "duckdb", allow_tf=False)
        comps.append(cd)
        truths.append(tr)
    case = {"backend": "duckdb", "link_type": "dedupe_only", "tables": [rows], "comparisons": comps, "truth": truths, "prior": 0.1,
            "max_iterations": 2, "em_convergence": 1e-9}
    vals = []
    for _ in range(2):
        lk = X.make_linker(case)
        lk.training.estimate_u_using_random_sampling(max_pairs=300, seed=11)
        m = X3.read_model(case, lk._settings_obj.core_model_settings, False)
        vals.append([[l["u"] for l in c["levels"]] for c in m["cmps"]])
    same = vals[0] == vals[1]
    ctx.obligation("TEST seeded sampling below full sample is reproducible (two fresh linkers, seed=11, max_pairs=300 of 1770)", same)
    ctx.cov["evaluations"] += 2
    if not same:
        ctx.violation("estimate_u_using_random_sampling with a seed is not reproducible", {"case": case, "run1": X3.jsonable(vals[0]), "run2": X3.jsonable(vals[1])},
                      {"estimator": "u", "seeded_reproducibility": False})


def run(ctx: Ctx):
    ctx.cov["rule"] = ("X: seeded tables (1 table dedupe_only / 2-3 tables link_only, link_and_dedupe; overlapping ids; NULL-heavy columns named a/Surname/"
                       "group/'first name'/index; label column with NULLs and singleton labels) x 2-3 custom comparisons (levels never observed, "
                       "per-level fix flags, TF flags) x a sequence of 2-4 estimator calls on one linker (u with max_pairs from exactly the admissible "
                       "count upwards, m from label column, m from listed pairs in either orientation) + one prior estimate (1-3 overlapping rules, "
                       "recall in (0,1]); non-trivial = some null gamma and >= 2 distinct observed levels.")
    ctx.trusted += [
        "translators/c04_cartesian.py (Python ast walk of misc.py:calculate_cartesian, whitelist of shapes)",
        "harness/c04_x.py: admissible / label-equal / listed pairs and their gamma vectors are computed by the harness from the generated tables "
        "(own evaluation of the generated level conditions null/exact/prefix/never/else); engine floats -> exact rationals, tolerance 1e-9 relative",
        "modelled not verified: the engines' sampling (USING SAMPLE / ORDER BY RANDOM) below the full-sample threshold - there only seeded reproducibility is TESTED; "
        "float evaluation of _rows_needed_for_n_pairs at the boundary is explored by X (max_pairs = admissible pairs exactly), the real-valued statement is C04_full_sample_when_enough_pairs",
        "SQLite: estimate_m_from_pairwise_labels with a source_dataset column fails loudly (concat() missing) and is not generated there",
    ]
    ctx.cov["translated_sources"] = {p: git_blob(REPO / p) for p in SOURCES}
    ok = ctx.proof_stage("Properties/C04.v")
    if not ok:
        ctx.violation("theorems of Properties/C04.v no longer check", {"broken": "Properties/C04.v"}, found_input=False)
    tfail = translator_stage(ctx)
    sample_stage(ctx)

    eterms, emetas, pterms, pmetas = [], [], [], []
    cases = []
    if ctx.replay:
        rp = json.loads(open(ctx.replay).read())
        if "case" in rp:
            cases = [rp["case"]]
    else:
        n = 90 if ctx.quick else 900
        cases = [X.gen_case(ctx.rng, "sqlite" if i % 3 == 2 else "duckdb") for i in range(n)]
    for case in cases:
        try:
            ops_done = X.run_ops(case)
        except Exception as e:      # every generated call is inside the property's quantifier: it must not raise
            if not getattr(ctx, "_raised_reported", False):
                ctx._raised_reported = True
                ctx.violation("a direct estimator raised on a generated input: " + repr(e)[:200],
                              {"case": case, "implementation": repr(e)[:600], "specification": "estimates equal to the exact pair frequencies"},
                              {"estimator": "any", "failure": "estimator raised", "backend": case["backend"], "link_type": case["link_type"]})
            continue
        for op, before, after, saved in ops_done:
            rows = X.rows_for(case, op)
            fails = X.oracle(case, op, rows, before, after)
            eterms.append(X.est_term(case, op, rows, before, after))
            emetas.append((case, op, fails, before, after))
            vals = {(i, g[i]) for g in rows for i in range(len(g))}
            nontrivial = any(-1 in g for g in rows) and len({g[0] for g in rows if g[0] != -1}) >= 2
            ctx.count_case(json.dumps([case["tables"], case["comparisons"], op], sort_keys=True, default=str), nontrivial,
                           {"backend": case["backend"], "link_type": case["link_type"], "tables": [len(t) for t in case["tables"]],
                            "op": op["op"], "pairs": len(rows), "max_pairs": op.get("max_pairs")})
            ctx.hist("estimator", op["op"])
            ctx.hist("backend", case["backend"])
            ctx.hist("link_type", f"{case['link_type']}/{len(case['tables'])}")
            ctx.hist("pairs_seen", min(len(rows) // 10 * 10, 50))
            ctx.hist("unobserved_level", any(X.py_freq(rows, i, l["val"]) == "NO" for i, c in enumerate(before["cmps"]) for l in c["levels"]))
            ctx.hist("level_fix_flag", any(l["fixm"] or l["fixu"] for c in before["cmps"] for l in c["levels"]))
            if op["op"] == "u":
                ctx.hist("max_pairs_minus_threshold", int(op["max_pairs"] - X.full_threshold(case["link_type"], case["tables"])))
        obs = X.observed_matches(case)
        if X.prior_boundary(case, obs):
            ctx.hist("skipped_prior_at_exact_boundary", True)
            continue
        impl = X.run_prior(case)
        pf = X.prior_oracle(case, obs, impl)
        pterms.append(X.prior_term(case, obs, impl))
        pmetas.append((case, obs, impl, pf))
        ctx.count_case(json.dumps([case["tables"], case["prior_op"]], sort_keys=True, default=str), obs > 0,
                       {"backend": case["backend"], "link_type": case["link_type"], "op": "prior", "observed": obs, "recall": case["prior_op"]["recall"],
                        "accepted": impl is not None and impl != "ZD"})
        ctx.hist("estimator", "prior")
        ctx.hist("prior_accepted", impl is not None)
        ctx.hist("prior_rules", len(case["prior_op"]["rules"]))
    if not ctx.replay:
        zero_pairs_witness(ctx, pterms, pmetas)
    bad, errs = ctx.eval_cases("C04_est", X.HEADER, eterms, "est_case", shard=25)
    badp, errsp = ctx.eval_cases("C04_prior", X.HEADER, pterms, "prior_run", shard=100)
    for e in errs + errsp:
        ctx.obligation("correspondence shard evaluation", False, e)
    ctx.obligation(f"correspondence: estimators = Gallina model on {len(eterms)} estimator calls", not bad and not errs)
    ctx.obligation(f"correspondence: prior estimate / recall guard / cartesian = Gallina model on {len(pterms)} calls", not badp and not errsp)
    ctx.obligation("property oracle (exact frequencies, unobserved, fixed, medians, prior) on every call",
                   not any(m[2] for m in emetas) and not any(m[3] for m in pmetas))
    seen = set()
    for i, (case, op, fails, before, after) in enumerate(emetas):
        if i not in bad and not fails:
            continue
        f = features(case, op["op"], fails)
        key = json.dumps([f["estimator"], f["failure"]])
        if key in seen:
            continue
        seen.add(key)
        small = dict(case, ops=case["ops"][: case["ops"].index(op) + 1])
        ctx.violation(f"{op['op']} estimator: " + (fails[0][0] if fails else "implementation differs from the Gallina model"),
                      {"case": small, "coq_model_disagrees": i in bad, "property_oracle_failures": fails[:4],
                       "implementation": X3.jsonable({c["name"]: [(l["val"], l["m"], l["u"], l["tm"], l["tu"]) for l in c["levels"]] for c in after["cmps"]}),
                       "specification": "exact pair frequencies, see property_oracle_failures"}, f, found_input=bool(fails))
    found_prior_input = False
    for i, (case, obs, impl, pf) in enumerate(pmetas):
        if i not in badp and not pf:
            continue
        f = features(case, "prior", pf)
        key = json.dumps([f["estimator"], f["failure"], f["link_type"]])
        if key in seen:
            continue
        seen.add(key)
        found_prior_input = found_prior_input or bool(pf)
        ctx.violation("prior estimate: " + (pf[0][0] if pf else "implementation differs from the Gallina model"),
                      {"case": dict(case, ops=[]), "observed_matches": obs, "implementation": None if impl is None else impl if impl == "ZD" else float(impl),
                       "property_oracle_failures": pf, "coq_model_disagrees": i in badp}, f, found_input=bool(pf))
    if tfail is not None and not found_prior_input:
        ctx.violation("calculate_cartesian no longer matches the model (tie lemma / translation failed)",
                      {"broken": "T cartesian_gen_is_model", "detail": tfail}, {"estimator": "prior", "failure": "translator"}, found_input=False)
    if (errs or errsp) and not seen:
        ctx.violation("correspondence C04 could not be evaluated", {"broken": "C04_est/C04_prior", "errors": (errs + errsp)[:3]}, found_input=False)
    if not ctx.replay:
        reproducibility_test(ctx)
