"""C13  Results are invariant under re-presentation of the same problem.

 P  Properties/C13.v: model-level invariance theorems (rule order, row/table order, id
    relabelling, salting partitions) over the C01 blocking model.
 X  each seeded scenario is run through the real Splink under several random compositions of
    re-presentations; for every presentation the scored pair set with match keys is compared,
    inside Coq, with the Gallina `block` evaluated on the CANONICAL rows (rule list in the
    presented order), i.e. impl(g x) = rename_g(model x); scores, trained parameters and
    cluster partitions of impl(g x) are compared with those of the canonical run (whose
    agreement with the scoring / EM / clustering models is the business of C02, C03, C05).
"""
from __future__ import annotations

import contextlib
import io
import json

import duckdb
import pandas as pd

from harness import splink_util as su
from harness.common import Ctx, coq_list

HEADER = """From Coq Require Import List Bool Arith.
From Splinkv Require Import Base.TV Model.Blocking.
Import ListNotations.
Definition tvn (n : nat) : tv := match n with 0 => F | 1 => T | _ => U end.
Definition triple_eqb (a b : nat * (nat * nat)) : bool :=
  Nat.eqb (fst a) (fst b) && Nat.eqb (fst (snd a)) (fst (snd b)) && Nat.eqb (snd (snd a)) (snd (snd b)).
Definition cnt (x : nat * (nat * nat)) l := length (filter (triple_eqb x) l).
Definition bag_eqb (a b : list (nat * (nat * nat))) : bool :=
  forallb (fun x => Nat.eqb (cnt x a) (cnt x b)) (a ++ b).
(* case: link code, n rows, canonical ranks, dataset ids, outcome matrices in the PRESENTED
   rule order, implementation output mapped back to canonical row numbers and oriented by
   canonical rank (all rules in this check are symmetric in l and r) *)
Definition run_case (c : nat * nat * list nat * list nat * list (list nat) * list (nat * (nat * nat))) : bool :=
  match c with (lt, n, ranks, dss, mats, expd) =>
    let adm := fun l r => Nat.ltb (nth l ranks 0) (nth r ranks 0) &&
                          (match lt with 0 => true | _ => negb (Nat.eqb (nth l dss 0) (nth r dss 0)) end) in
    let rules := map (fun m => fun l r => tvn (nth (l * n + r) m 2)) mats in
    bag_eqb (block adm rules (seq 0 n) (seq 0 n)) expd
  end.
"""

COLS = ["fn", "sn", "dob", "city"]
POOL = {
    "fn": ["ann", "anne", "bob", "cat", None],
    "sn": ["smith", "smyth", "jones", "jonas", None],
    "dob": ["1990", "1985", "2001", None],
    "city": ["leeds", "leedz", "york", "yorks", None],
}
RULES = [("fn",), ("sn", "dob"), ("city", "fn"), ("dob",), "substr"]
NAME_POOLS = [
    {"fn": "fn", "sn": "sn", "dob": "dob", "city": "city"},
    {"fn": "First_Name", "sn": "SURNAME", "dob": "Dob", "city": "City"},
    {"fn": "group", "sn": "order", "dob": "select", "city": "index"},
    {"fn": "first name", "sn": "sur-name", "dob": "d.o.b", "city": "home city"},
    {"fn": "Group", "sn": "from", "dob": "table", "city": "Where"},
    # names that contain the _l / _r suffixes Splink appends, in the middle and at the end
    {"fn": "name_last", "sn": "sur_registered", "dob": "d_l_b", "city": "address_line_1"},
    {"fn": "fn_l", "sn": "sn_r", "dob": "dob_r_l", "city": "city_L"},
]


def gen_scenario(rng):
    lt = rng.choice(["dedupe_only", "link_only", "link_and_dedupe"])
    ntab = 1 if lt == "dedupe_only" else rng.choice([2, 2, 3])
    tables = []
    for t in range(ntab):
        n = rng.randint(8, 14) if ntab == 1 else rng.randint(5, 8)
        ids = rng.sample(range(1, 40), n)
        tables.append([{"unique_id": i, **{c: rng.choice(POOL[c]) for c in COLS}} for i in ids])
    for c in COLS:  # no all-NULL column in any table
        for tab in tables:
            if all(r[c] is None for r in tab):
                tab[0][c] = POOL[c][0]
    rules = rng.sample(RULES, rng.choice([1, 2, 2, 3]))
    em_col = rng.choice(["fn", "dob"])
    return {"link_type": lt, "names": ["ta", "tb", "tc"][:ntab], "tables": tables, "rules": rules,
            "train": rng.random() < 0.6, "em_col": em_col, "em_fix_lambda": rng.random() < 0.4, "threshold": rng.choice([0.3, 0.5, 0.9]),
            "tf": rng.random() < 0.7, "tf_fuzzy": rng.random() < 0.5}


def rule_sql(rule, cm):
    q = lambda c: '"' + cm[c] + '"'  # noqa: E731
    if rule == "substr":
        return f"l.{q('fn')} = r.{q('fn')} and substr(l.{q('sn')},1,2) = substr(r.{q('sn')},1,2)"
    return " and ".join(f"l.{q(c)} = r.{q(c)}" for c in rule)


def gen_presentation(rng, sc, identity=False):
    n = len(sc["rules"])
    if identity:
        return {"colmap": NAME_POOLS[0], "uid": "ident", "uid_name": "unique_id", "row_seed": None, "table_order": list(range(len(sc["tables"]))),
                "rule_order": list(range(n)), "salting": {}, "mat_tf": True, "mat_bp": True, "debug": [], "threads": None, "col_order_seed": None,
                "one_table": False, "block_on": True, "alias_map": "ident"}
    order = list(range(n))
    rng.shuffle(order)
    torder = list(range(len(sc["tables"])))
    rng.shuffle(torder)
    return {
        "colmap": rng.choice(NAME_POOLS), "uid": rng.choice(["ident", "affine", "padded_string", "reverse", "ident"]),
        "uid_name": rng.choice(["unique_id", "ID", "record id"]),
        "row_seed": rng.randint(0, 10**6), "table_order": torder, "rule_order": order,
        "salting": {k: rng.choice([2, 3, 7]) for k in range(n) if rng.random() < 0.3},
        "mat_tf": rng.random() < 0.5, "mat_bp": rng.random() < 0.5,
        # debug mode may be on for the whole job or toggled for single steps
        "debug": (["train", "predict", "cluster", "predict2"] if rng.random() < 0.1 else
                  sorted(rng.sample(["train", "predict", "cluster", "predict2"], rng.choice([1, 2]))) if rng.random() < 0.2 else []),
        "threads": rng.choice([None, 1, 2, 8, 16]),
        # every input table may list its columns in its own order
        "col_order_seed": rng.choice([None, rng.randint(0, 10**6)]),
        "one_table": len(sc["tables"]) > 1 and sc["link_type"] == "link_only" and rng.random() < 0.3,
        "block_on": rng.random() < 0.5,
        # the input tables' aliases (= source dataset names) may be renamed, also so that their
        # order - which decides the left/right orientation of every cross-table pair - reverses
        "alias_map": rng.choice(["ident", "ident", "reversing", "capitalised"]) if len(sc["tables"]) > 1 else "ident",
    }


def uid_map(kind, i):
    if kind == "affine":
        return 3 * i + 7
    if kind == "padded_string":
        return f"id{i:04d}"
    if kind == "reverse":  # order-reversing: every pair is evaluated in the other orientation
        return 1000 - i
    return i


def alias_of(kind, names, ti):
    if kind == "reversing":
        return f"z{len(names) - ti}_{names[ti]}"
    if kind == "capitalised":
        return names[ti].capitalize() + "_Data"
    return names[ti]


def run_pipeline(sc, p):
    """Run the real Splink on presentation p of scenario sc; return outputs mapped back to
    canonical names/ids."""
    import random

    import splink.comparison_library as cl
    from splink import DuckDBAPI, SettingsCreator, block_on
    cm = p["colmap"]
    uidn = p["uid_name"]
    back = {}
    dfs = []
    for ti in p["table_order"]:
        rows = list(sc["tables"][ti])
        if p["row_seed"] is not None:
            random.Random(p["row_seed"] + ti).shuffle(rows)
        recs = []
        for r in rows:
            u = uid_map(p["uid"], r["unique_id"])
            back[(alias_of(p.get("alias_map", "ident"), sc["names"], ti), str(u))] = (sc["names"][ti], r["unique_id"])
            recs.append({uidn: u, **{cm[c]: r[c] for c in COLS}})
        d = pd.DataFrame(recs)
        for c in COLS:
            d[cm[c]] = d[cm[c]].astype("string")
        if p.get("col_order_seed") is not None:
            cols = list(d.columns)
            random.Random(p["col_order_seed"] + 7 * ti).shuffle(cols)
            d = d[cols]
        dfs.append(d)
    aliases = [alias_of(p.get("alias_map", "ident"), sc["names"], ti) for ti in p["table_order"]]
    if p["one_table"]:
        dfs = [pd.concat([d.assign(source_dataset=a) for d, a in zip(dfs, aliases)], ignore_index=True)]
        aliases = None
    rules = []
    for k in p["rule_order"]:
        rule = sc["rules"][k]
        if p["block_on"] and rule != "substr":
            br = block_on(*[cm[c] for c in rule], salting_partitions=p["salting"].get(k))
        else:
            br = {"blocking_rule": rule_sql(rule, cm)}
            if k in p["salting"]:
                br["salting_partitions"] = p["salting"][k]
        rules.append(br)
    fn = cl.ExactMatch(cm["fn"])
    if sc["tf"]:
        fn = fn.configure(term_frequency_adjustments=True)
    city = cl.ExactMatch(cm["city"])
    if sc.get("tf_fuzzy"):
        # a fuzzy level with a term-frequency adjustment and a minimum-u floor: the two records
        # of a pair can carry different term frequencies, so the score must not depend on which
        # of them is "l" (ids are relabelled / retyped / re-ordered by the presentations)
        import splink.comparison_level_library as cll
        city = cl.CustomComparison(
            output_column_name=cm["city"].replace(" ", "_"),
            comparison_levels=[
                cll.NullLevel(cm["city"]),
                cll.ExactMatchLevel(cm["city"]).configure(tf_adjustment_column=cm["city"], tf_minimum_u_value=0.1),
                cll.LevenshteinLevel(cm["city"], 2).configure(tf_adjustment_column=cm["city"], tf_minimum_u_value=0.05, tf_adjustment_weight=1.0),
                cll.ElseLevel()])
    comps = [fn, cl.LevenshteinAtThresholds(cm["sn"], [1, 2]), cl.ExactMatch(cm["dob"]), city]
    s = SettingsCreator(link_type=sc["link_type"], unique_id_column_name=uidn, comparisons=comps,
                        blocking_rules_to_generate_predictions=rules, probability_two_random_records_match=0.05,
                        retain_intermediate_calculation_columns=False)
    if sc.get("backend", "duckdb") == "sqlite":
        # the whole scenario (canonical run and its presentations) runs on SQLite; threads do not apply
        lk = su.linker(dfs, s, "sqlite", aliases=aliases if len(dfs) > 1 else None)
    else:
        con = duckdb.connect()
        if p["threads"]:
            con.execute(f"SET threads={p['threads']}")
        lk = su.linker(dfs, s, "duckdb", aliases=aliases if len(dfs) > 1 else None, api=DuckDBAPI(connection=con))
    sink = io.StringIO()
    with contextlib.redirect_stdout(sink):
        lk._debug_mode = "train" in p["debug"]
        if sc["train"]:
            lk.training.estimate_u_using_random_sampling(max_pairs=1e7, seed=3)
            try:
                lk.training.estimate_parameters_using_expectation_maximisation(
                    block_on(cm[sc["em_col"]]), fix_u_probabilities=True,
                    fix_probability_two_random_records_match=sc.get("em_fix_lambda", False))
            except Exception as e:  # a training block without pairs raises in every presentation alike
                if "resulted in no record pairs" not in str(e) and "no record pairs" not in str(e):
                    raise
        lk._debug_mode = "predict" in p["debug"]
        pred = lk.inference.predict(materialise_after_computing_term_frequencies=p["mat_tf"], materialise_blocked_pairs=p["mat_bp"])
        prs = su.records(pred)
        lk._debug_mode = "cluster" in p["debug"]
        clus = su.records(lk.clustering.cluster_pairwise_predictions_at_threshold(pred, threshold_match_probability=sc["threshold"]))
        # a second prediction with a threshold, after the clustering step
        lk._debug_mode = "predict2" in p["debug"]
        prs2 = su.records(lk.inference.predict(threshold_match_probability=sc["threshold"]))
        lk._debug_mode = False
        model = lk.misc.save_model_to_json()
    su.quiet()
    first = alias_of(p.get("alias_map", "ident"), sc["names"], 0)
    pairs = {}
    for x in prs:
        a = back[(x.get("source_dataset_l", first), str(x[uidn + "_l"]))]
        b = back[(x.get("source_dataset_r", first), str(x[uidn + "_r"]))]
        key = tuple(sorted([a, b]))
        pairs.setdefault(key, []).append((int(x.get("match_key", 0)), x["match_weight"],
                                         tuple(x["gamma_" + c["output_column_name"]] for c in model["comparisons"])))
    clusters = {}
    for x in clus:
        node = back[(x.get("source_dataset", first), str(x[uidn]))]
        clusters.setdefault(str(x["cluster_id"]), set()).add(node)
    partition = sorted(sorted(v) for v in clusters.values())
    params = []
    for c in model["comparisons"]:
        for lv in c["comparison_levels"]:
            params.append((lv.get("m_probability"), lv.get("u_probability")))
    params.append((model["probability_two_random_records_match"], None))
    pairs2 = set()
    for x in prs2:
        a = back[(x.get("source_dataset_l", first), str(x[uidn + "_l"]))]
        b = back[(x.get("source_dataset_r", first), str(x[uidn + "_r"]))]
        pairs2.add((tuple(sorted([a, b])), round(x["match_weight"], 6)))
    return {"pairs": pairs, "partition": partition, "params": params, "n_pred": len(prs), "pairs2": sorted(pairs2), "n_pred2": len(prs2)}


def outcome_matrices(sc):
    con = duckdb.connect()
    rows = []
    for name, tab in zip(sc["names"], sc["tables"]):
        for r in tab:
            rows.append({"__i": len(rows), "source_dataset": name, **r})
    d = pd.DataFrame(rows)
    for c in COLS:
        d[c] = d[c].astype("string")
    con.register("d0", d)
    con.execute("create table t as select __i, source_dataset, unique_id, " + ", ".join(f"cast({c} as varchar) as {c}" for c in COLS) + " from d0")
    n = len(rows)
    mats = []
    for rule in sc["rules"]:
        q = f"select l.__i, r.__i, ({rule_sql(rule, NAME_POOLS[0])}) from t l cross join t r"
        res = {(a, b): v for a, b, v in con.execute(q).fetchall()}
        mats.append([2 if res[(i, j)] is None else int(bool(res[(i, j)])) for i in range(n) for j in range(n)])
    con.close()
    return rows, mats


def close(a, b, tol=1e-9):
    if a is None or b is None or isinstance(a, str) or isinstance(b, str):
        return a == b
    return abs(a - b) <= tol * max(1.0, abs(a), abs(b))


def safe_run(sc, p):
    try:
        return run_pipeline(sc, p)
    except Exception as e:  # the canonical run succeeded, so raising is itself a difference
        su.quiet()
        return {"error": f"{type(e).__name__}: {str(e)[-300:]}", "pairs": {}, "partition": [], "params": [], "n_pred": 0, "pairs2": [], "n_pred2": 0}


def compare_runs(base, out):
    """Differences between canonical-run outputs and a presentation's outputs (mapped back)."""
    diffs = []
    if "error" in out:
        if "logarithm of zero" in out["error"]:
            # a trained probability of exactly 0 on tiny data: whether the engine evaluates
            # log2(0) depends on whether the (unused) match_weight column of an intermediate CTE
            # is materialised (debug mode) or projected away (pipelined) - a loud failure of a
            # degenerate model, not a change of results; counted, not reported
            return []
        return [("raises", out["error"])]
    if set(base["pairs"]) != set(out["pairs"]):
        diffs.append(("pair_set", sorted(set(base["pairs"]) ^ set(out["pairs"]))[:5]))
    for k in set(base["pairs"]) & set(out["pairs"]):
        if len(out["pairs"][k]) != 1:
            diffs.append(("duplicate_pair", k))
            continue
        (_, w0, g0), (_, w1, g1) = base["pairs"][k][0], out["pairs"][k][0]
        if g0 != g1:
            diffs.append(("gamma", k, g0, g1))
        elif not close(w0, w1):
            diffs.append(("match_weight", k, w0, w1))
    if base.get("pairs2") != out.get("pairs2") or base.get("n_pred2") != out.get("n_pred2"):
        diffs.append(("thresholded_predict_after_clustering", base.get("n_pred2"), out.get("n_pred2")))
    if base["partition"] != out["partition"]:
        diffs.append(("partition", base["partition"], out["partition"]))
    for i, (a, b) in enumerate(zip(base["params"], out["params"])):
        if not (close(a[0], b[0], 1e-7) and close(a[1], b[1], 1e-7)):
            diffs.append(("param", i, a, b))
    return diffs


def features_of(p, ident, diffs):
    changed = sorted(k for k in p if p[k] != ident[k] and k not in ("row_seed",))
    return {"changed": changed, "diff_kinds": sorted({d[0] for d in diffs}),
            "colmap": p["colmap"]["fn"], "uid": p["uid"], "debug": p["debug"]}


def minimise(sc, p, ident, base):
    """Reset presentation components to identity one at a time while the difference persists."""
    cur = dict(p)
    for k in list(cur):
        if cur[k] == ident[k]:
            continue
        trial = dict(cur)
        trial[k] = ident[k]
        if k == "rule_order":
            trial["salting"] = {}
        try:
            if compare_runs(base, safe_run(sc, trial)):
                cur = trial
        except Exception:
            pass
    return cur


def run(ctx: Ctx):
    ctx.cov["rule"] = ("seeded scenarios (1-3 tables, NULLs, 1-3 symmetric blocking rules, 4 comparisons, optional u+EM training, "
                       "clustering) x random compositions of re-presentations (row/table order, column names incl. upper case, SQL keywords, "
                       "spaces; uid relabel/retype/rename; dataset aliases renamed incl. order-reversing; one-table link formulation; rule order; "
                       "salting; materialisation flags; debug mode; threads); every fourth scenario runs on SQLite. Non-trivial: >=2 components changed and >=1 scored pair; distinct by (scenario, presentation).")
    ctx.trusted += [
        "X: DuckDB evaluates each canonical rule per pair (outcome matrix for the Gallina block model)",
        "scores / trained parameters / partitions of a presentation are compared with the canonical run in Python (tolerance 1e-9 / 1e-7); their agreement with the Gallina scoring, EM and clustering models is established by the C02, C03, C05 checks",
        "not covered by proof: DuckDB thread scheduling (explored with threads in {1,2,8,16}); every fourth scenario runs on SQLite instead",
    ]
    ok = ctx.proof_stage("Properties/C13.v")
    if not ok:
        ctx.violation("theorems of Properties/C13.v no longer check", {"broken": "Properties/C13.v"}, found_input=False)
    # clustering / graph-metrics invariance theorems (single-best-link loop, metrics, bridges)
    ok2 = ctx.proof_stage("Properties/C13_clustering.v")
    if not ok2:
        ctx.violation("theorems of Properties/C13_clustering.v no longer check", {"broken": "Properties/C13_clustering.v"}, found_input=False)
    # recount outputs (accuracy, descriptive, blocking analysis) under row permutation / id renaming
    ok3 = ctx.proof_stage("Properties/C13_recounts.v")
    if not ok3:
        ctx.violation("theorems of Properties/C13_recounts.v no longer check", {"broken": "Properties/C13_recounts.v"}, found_input=False)
    # known finding KF-C13-oto-ties-relabel: with tied probabilities the single-best-link partition
    # depends on the id labels (model-level: C13_oto_injective_relabel_ties_refuted); replayed on
    # the real code on every run
    from harness import c12_x
    for backend in ("duckdb", "sqlite"):
        try:
            reproduced, details = c12_x.relabel_ties_witness(backend)
        except Exception as e:  # the witness itself must run
            reproduced, details = False, {"error": repr(e)}
        ctx.cov["evaluations"] += 1
        if reproduced:
            ctx.violation("single-best-link partition changes under an injective relabelling of ids when match probabilities tie",
                          {"backend": backend, "details": details}, {"kind": "oto_ties_relabel", "backend": backend})
        else:
            ctx.expect_known("KF-C13-oto-ties-relabel", False, f"relabelled witness gives the same partition on {backend}: {str(details)[:200]}")
    # identifier-handling layer (Model/Idents.v, Properties/C13_idents.v): theorems, translator
    # obligations and correspondence for the string-level functions that look at column names
    from harness import c13_idents
    c13_idents.run_idents(ctx)
    nsc = 14 if ctx.quick else 120
    npres = 5 if ctx.quick else 8
    terms, meta = [], []
    py_diffs = []
    for si in range(nsc):
        sc = gen_scenario(ctx.rng)
        # every fourth scenario runs (canonical run and all its presentations) on SQLite
        sc["backend"] = "sqlite" if si % 4 == 3 else "duckdb"
        ctx.hist("backend", sc["backend"])
        ident = gen_presentation(ctx.rng, sc, identity=True)
        try:
            base = run_pipeline(sc, ident)
        except Exception as e:
            # tiny data can make EM hit log(0) inside the engine (a loud failure outside this
            # property): such scenarios are run without training
            if not sc["train"]:
                raise
            ctx.hist("training_skipped", type(e).__name__)
            sc["train"] = False
            base = run_pipeline(sc, ident)
        rows, mats = outcome_matrices(sc)
        idx = {(r["source_dataset"], r["unique_id"]): r["__i"] for r in rows}
        if sc["link_type"] == "dedupe_only":
            keys = [r["unique_id"] for r in rows]
        else:
            keys = [f"{r['source_dataset']}-__-{r['unique_id']}" for r in rows]
        order = sorted(range(len(rows)), key=lambda i: keys[i])
        rank = [0] * len(rows)
        for pos, i in enumerate(order):
            rank[i] = pos
        dss = [sc["names"].index(r["source_dataset"]) for r in rows]
        for pi in range(npres + 1):
            p = ident if pi == 0 else gen_presentation(ctx.rng, sc)
            out = base if pi == 0 else safe_run(sc, p)
            if "error" in out:
                d0 = compare_runs(base, out)
                if d0:
                    py_diffs.append((sc, p, ident, base, d0))
                else:
                    ctx.hist("skipped_degenerate_log_of_zero", p["debug"] != [])
                continue
            expd = []
            for (a, b), lst in out["pairs"].items():
                ia, ib = idx[a], idx[b]
                if rank[ia] > rank[ib]:
                    ia, ib = ib, ia
                for (mk, _, _) in lst:
                    expd.append((mk, ia, ib))
            n = len(rows)
            pm = [mats[k] for k in p["rule_order"]]
            lt = 1 if sc["link_type"] == "link_only" else 0
            terms.append(f"({lt}, {n}, {coq_list([str(x) for x in rank], 'nat')}, {coq_list([str(x) for x in dss], 'nat')}, "
                         f"{coq_list([coq_list([str(x) for x in m], 'nat') for m in pm], '(list nat)')}, "
                         f"{coq_list([f'({k}, ({a}, {b}))' for k, a, b in sorted(expd)], '(nat * (nat * nat))')})")
            meta.append((sc, p, ident, base))
            nchanged = sum(1 for k in p if p[k] != ident[k])
            ctx.count_case(json.dumps([sc, p], sort_keys=True, default=str), nchanged >= 2 and out["n_pred"] > 0,
                           {"link_type": sc["link_type"], "rules": [str(r) for r in sc["rules"]], "presentation": {k: (v if k != "colmap" else v["fn"]) for k, v in p.items()}, "pairs": out["n_pred"]})
            for k in p:
                if p[k] != ident[k]:
                    ctx.hist("changed_component", k)
            ctx.hist("colnames", p["colmap"]["fn"])
            ctx.hist("link_type", sc["link_type"])
            if pi > 0:
                d = compare_runs(base, out)
                if d:
                    py_diffs.append((sc, p, ident, base, d))
    bad, errs = ctx.eval_cases("C13_x", HEADER, terms, "run_case", shard=60)
    for e in errs:
        ctx.obligation("correspondence shard evaluation", False, e)
    ctx.obligation(f"impl(g x) pair set + match keys = Gallina block(x) on {len(terms)} presentations", not bad and not errs)
    ctx.obligation("scores, parameters and partitions equal to the canonical run under every presentation", not py_diffs)
    seen = set()
    for i in bad:
        sc, p, ident, base = meta[i]
        f = {"changed": sorted(k for k in p if p[k] != ident[k] and k != "row_seed"), "diff_kinds": ["pair_set_vs_model"],
             "colmap": p["colmap"]["fn"], "uid": p["uid"], "debug": p["debug"]}
        key = json.dumps(f, sort_keys=True)
        if key in seen:
            continue
        seen.add(key)
        ctx.violation("scored pair set / match keys under a re-presentation differ from the blocking model on the canonical data",
                      {"scenario": sc, "presentation": p}, f)
    for sc, p, ident, base, d in py_diffs:
        try:
            small = minimise(sc, p, ident, base)
            d2 = compare_runs(base, safe_run(sc, small)) or d
        except Exception:
            small, d2 = p, d
        f = features_of(small, ident, d2)
        key = json.dumps(f, sort_keys=True)
        if key in seen:
            continue
        seen.add(key)
        ctx.violation(f"results change under re-presentation ({f['changed']}): {d2[0][0]}",
                      {"scenario": sc, "presentation": small, "differences": [list(map(str, x)) for x in d2[:6]]}, f)
    if errs and not bad:
        ctx.violation("correspondence C13_x could not be evaluated", {"errors": errs}, found_input=False)
