"""C17  Turning a specification into SQL is deterministic and side-effect free.

 P  theorems in Properties/C17.v: a program accepted by the effect-summary checker `pure` is
    history independent for all call histories, equals a fresh object, keeps unwritten attributes.
 T  translators/c17_effects.py + c17_programs.py: abstract interpretation of the Python ast of every
    creator class x entry method (and of ColumnExpression's methods) into programs; `pure` and
    `summary` evaluated in Coq on each.
 X  harness/c17_x.py: every creator x argument grid x call sequences over the dialects it supports:
    outputs vs fresh objects, deep comparison of the object state, dict isolation of SettingsCreator,
    sqlglot parse of each emitted SQL; model predictions evaluated in Coq on the observed histories.
"""
from __future__ import annotations

import re

from harness import c17_grid as G
from harness.c09 import eval_results
from harness.common import Ctx, REPO, git_blob
from translators import c17_programs as P

SOURCES = ["splink/internals/comparison_level_creator.py", "splink/internals/comparison_creator.py",
           "splink/internals/comparison_level_library.py", "splink/internals/comparison_library.py",
           "splink/internals/comparison_level_composition.py", "splink/internals/blocking_rule_creator.py",
           "splink/internals/blocking_rule_library.py", "splink/internals/column_expression.py",
           "splink/internals/settings_creator.py", "splink/internals/dialects.py"]


def translator_stage(ctx: Ctx, grid):
    progs = P.creator_programs(grid, G.ENTRY)
    ce = P.column_expression_programs()
    callees = P.callee_programs(progs)
    ctx.cov["non_inlined_callees_checked"] = len(callees)
    ctx.cov["allowed_shared_state"] = dict(P.E.ALLOWED_STATE)
    allp = progs + ce + callees
    ctx.cov["translated_sources"] = {p: git_blob(REPO / p) for p in SOURCES}
    text = P.gen_text(allp)
    ok, out = ctx.coqc_text("C17_gen", text)
    ctx.checker_cmds.append("coqc gen/C17_gen.v (Eval vm_compute in pure / summary of every regenerated program)")
    if not ok:
        ctx.obligation("generated programs compile", False, out[-1500:])
        ctx.violation("generated C17 programs do not compile", {"broken": "coq/gen/C17_gen.v", "output": out[-1500:]},
                      found_input=False)
        return allp, {}, {}
    pure_res, summ_res, slot_res = eval_results(out)
    other_writes = {name: list(lst) for name, lst in slot_res}
    pure = {name: (b == ("atom", "true")) for name, b in pure_res}
    bad_writes = {}
    for name, lst in summ_res:
        bad_writes[name] = [(a, c[1]) for a, c in lst]
    for p in allp:
        p["pure"] = pure.get(p["name"], False)
        p["bad_writes"] = bad_writes.get(p["name"], [])
        ctx.obligation(f"pure (program of {p['name']}) = true", p["pure"],
                       f"writes not SetFromArg: {p['bad_writes'][:6]}; unknown constructs: {p['unknown'][:3]}")
        # entry methods (not constructors) may write nothing but dialect slots
        p["other_writes"] = other_writes.get(p["name"], ["<not evaluated>"])
        if not str(p.get("entry", "")).startswith(("__init__", "from_path_or_dict")):
            p["slots_ok"] = not p["other_writes"]
            ctx.obligation(f"writes_only_dialect_slots (program of {p['name']}) = true", p["slots_ok"],
                           f"also writes {p['other_writes'][:6]}")
    for p in ce:
        if p.get("builder"):
            ctx.obligation(f"{p['name']} returns a clone, not its receiver", not p["returns_receiver"])
    ctx.cov["programs"] = len(allp)
    ctx.cov["programs_pure"] = sum(1 for p in allp if p["pure"])
    ctx.cov["written_paths"] = sorted({w for p in allp for w in p["written"]})
    ctx.cov["assumed_pure_callees"] = sorted({a for p in progs for a in p.get("assumed_pure", [])})
    if progs:
        p0 = next((p for p in progs if p["written"]), progs[0])
        ctx.cov["samples"].append({"effect_program": {"name": p0["name"], "written": p0["written"],
                                                      "program": str(p0["program"])[:400]}})
    return allp, pure, bad_writes


def grid_completeness(grid):
    """public concrete creator classes defined in (or exported by) the three libraries that the grid does not cover"""
    import inspect
    import splink.internals.blocking_rule_library as brl
    import splink.internals.comparison_level_library as cll
    import splink.internals.comparison_library as cl
    from splink.internals.blocking_rule_creator import BlockingRuleCreator
    from splink.internals.comparison_creator import ComparisonCreator
    from splink.internals.comparison_level_creator import ComparisonLevelCreator
    have = {it["cls"] for it in grid}
    missing = []
    for mod, base in ((cll, ComparisonLevelCreator), (cl, ComparisonCreator), (brl, BlockingRuleCreator)):
        for name, obj in vars(mod).items():
            if (inspect.isclass(obj) and issubclass(obj, base) and obj is not base and not name.startswith("_")
                    and not inspect.isabstract(obj) and obj not in have):
                missing.append(f"{mod.__name__.split('.')[-1]}.{name}")
    return sorted(set(missing))


def run(ctx: Ctx):
    ctx.cov["rule"] = ("T: one `pure` obligation per creator class x entry method (get_comparison_level/create_level_dict, "
                       "get_comparison/create_comparison_dict, get_blocking_rule/create_blocking_rule_dict, get_settings/"
                       "create_settings_dict) and per ColumnExpression method. X: every item of the argument grid x call "
                       "sequences (repeat, alternate, seeded random, length <= 4) over the dialects the creator supports; a case "
                       "is non-trivial when the sequence has >= 2 calls; distinct by (grid item, entry, sequence).")
    ctx.trusted += [
        "translators/c17_effects.py (abstract interpretation of the Python ast: aliasing through locals, shallow copies, "
        "properties, constructors, dialect hooks; runtime classes of attribute paths taken from the grid's sample instances "
        "for method resolution; unknown constructs become unknown mutations, which the checker rejects)",
        "third-party callees (sqlglot, re, functools.partial) do not mutate creator objects; SplinkDialect objects are immutable; "
        "the decorator unsupported_splink_dialects only raises",
        "constructors of Comparison / ComparisonLevel / BlockingRule / Settings called with fresh dictionaries do not reach back "
        "into the creators (their arguments carry no alias to the creator)",
        "free interpretation of the method bodies' pure computations (equal observation logs imply equal results)",
        "cross-instance state: constructors are analysed with every defaulted parameter at its default; mutable defaults, "
        "module-level and class-level mutable objects are static roots whose mutation / storage by reference is rejected; "
        "SplinkDialect's instance cache is outside (immutable singletons)",
    ]
    ok = ctx.proof_stage("Properties/C17.v")
    if not ok:
        ctx.violation("theorems of Properties/C17.v no longer check", {"broken": "Properties/C17.v"}, found_input=False)
    grid = G.grid()
    from harness import c17_x
    # before anything else constructs a creator in this process: what fresh creators return
    baseline = None
    if not ctx.replay:
        first = c17_x.record_all(grid)
        order = list(range(len(grid)))
        ctx.rng.shuffle(order)
        rot = G.DIALECTS[2:] + G.DIALECTS[:2]
        baseline = (first, c17_x.record_all(grid, order, rot))
    if ctx.replay:
        import json
        rp = json.loads(open(ctx.replay).read())
        case = rp.get("case", {})
        items = [it for it in grid if it["label"] == case.get("creator")]
        if items and case.get("entry") and case.get("sequence"):
            allp, pure, bad = translator_stage(ctx, items)
            c17_x.correspondence(ctx, items, allp, only=(case["entry"], case["sequence"]))
            return
    allp, pure, bad = translator_stage(ctx, grid)
    missing = grid_completeness(grid)
    ctx.obligation("every public creator class of the three libraries (and SettingsCreator) is in the argument grid",
                   not missing, str(missing))
    ctx.cov["grid_classes"] = len({it["cls"] for it in grid})
    if missing:
        ctx.violation(f"creator classes without a grid item (not analysed, not exercised): {missing}",
                      {"broken": "grid completeness", "missing": missing}, {"grid_incomplete": missing[0]}, found_input=False)
    found = c17_x.correspondence(ctx, grid, allp, baseline=baseline)
    # failed obligations without a concrete failing input from X
    for p in allp:
        if p.get("pure", False) and p.get("slots_ok", True):
            continue
        cls = p["name"].split(".")[1]
        if cls in found:
            continue
        ctx.violation(f"effect-summary obligation failed for {p['name']}: writes {(p.get('bad_writes') or p.get('other_writes', []))[:6]} "
                      f"{p['unknown'][:2]}; no call history with a different result was found",
                      {"broken": f"pure {p['name']}", "bad_writes": p.get("bad_writes", []), "unknown": p["unknown"][:5]},
                      {"class": cls, "entry": p["name"].split(".")[-1], "unconfirmed": True}, found_input=False)
    for p in allp:
        if p.get("builder") and p.get("returns_receiver"):
            ctx.violation(f"{p['name']} returns its receiver instead of a clone",
                          {"broken": f"clone obligation {p['name']}"}, {"builder_returns_receiver": p["name"]}, found_input=False)
