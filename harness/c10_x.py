"""C10 correspondence: compare_two_records, realtime compare_records, find_matches_to_new_records,
_score_missing_cluster_edges and predict() of the real Splink on the same seeded model and data,
against (a) the shared Scoring model evaluated in Coq on each entry point's own inputs
(outcomes evaluated by the engine in the entry point's orientation, TF values according to the
entry point's TF route), (b) each other (gamma and match weight of the same record pair), and
(c) the EntryPoints model for the two set-valued claims (find_matches, missing edges)."""
from __future__ import annotations

import math
from fractions import Fraction as Fr

import pandas as pd

from harness import c02_gen as G
from harness import c02_x as X
from harness import splink_util as su
from harness.common import coq_Q, coq_Z, coq_bool, coq_list, coq_opt

HEADER = X.HEADER.replace("From Splinkv Require Import Base.TV Model.Scoring.",
                          "From Splinkv Require Import Base.TV Model.Blocking Model.Scoring Model.EntryPoints.") + """
Record pinfo := { i_outc : list (list nat) }.
Definition pi0 := {| i_outc := [] |}.
Definition mki a := Build_pinfo a.
Definition pair_eqb (a b : nat * nat) : bool := Nat.eqb (fst a) (fst b) && Nat.eqb (snd a) (snd b).
Definition inb (x : nat * nat) (l : list (nat * nat)) : bool := existsb (pair_eqb x) l.
Fixpoint nodupb (l : list (nat * nat)) : bool :=
  match l with [] => true | x :: t => negb (inb x t) && nodupb t end.
Definition tf_of (tab : list (list (option Q))) (r : nat) : tfv := fun k => nth k (nth r tab []) None.
Definition mat_rule (m : nat) (mat : list nat) : nat -> nat -> tv := fun l r => tvn (nth (l * m + r) mat 2%nat).
Definition outc_of (m : nat) (infos : list pinfo) : nat -> nat -> list (nat -> tv) :=
  fun l r => map (fun v => fun i => tvn (nth i v 2%nat)) (i_outc (nth (l * m + r) infos pi0)).
Definition near (p t : Q) (x : scored nat) : bool :=
  match row_score nat p x with Some (Fin q) => qclose e9 q t | _ => false end.

(* ---- TF sources: the tf values given to the scorer above are recomputed here by the EntryPoints model.
   A record is the list of its TF-column values (string ids); D the linker's records; per column either a
   registered table, a table computed from the data, or none. *)
Definition vrec := list (option nat).
Definition vval (k : nat) (r : vrec) : option nat := nth k r None.
Definition oq_eqb (a b : option Q) : bool :=
  match a, b with Some x, Some y => Qeq_bool x y | None, None => true | _, _ => false end.
Inductive tfsrc := SrcRegistered (tbl : list (nat * Q)) | SrcComputed | SrcNoTable.
Definition present_values (D : list vrec) (k : nat) : list nat :=
  nodup Nat.eq_dec (flat_map (fun r => match vval k r with Some v => [v] | None => [] end) D).
Definition computed_table (D : list vrec) (k : nat) : list (nat * Q) :=
  flat_map (fun v => match tf_of_data vrec nat Nat.eqb vval D k (Some v) with Some q => [(v, q)] | None => [] end) (present_values D k).
Definition table_of (D : list vrec) (src : list tfsrc) (k : nat) : option (list (nat * Q)) :=
  match nth k src SrcNoTable with SrcRegistered t => Some t | SrcComputed => Some (computed_table D k) | SrcNoTable => None end.
(* a linker record: (values, expected tf);  an ad-hoc record: (values, concat table cached, supplied tf per column, expected tf) *)
Definition tf_t := (list vrec * list tfsrc * nat * list (vrec * list (option Q))
                    * list (vrec * bool * list (option (option Q)) * list (option Q)))%type.
Definition run_tf (c : tf_t) : bool :=
  match c with (D, src, ncol, own, adhoc) =>
    forallb (fun x => forallb (fun k => oq_eqb (data_tf vrec nat Nat.eqb vval D (table_of D src) (fst x) k) (nth k (snd x) None)) (seq 0 ncol)) own &&
    forallb (fun x => match x with (r, cc, sup, expd) =>
      let route := fun k => route_of (route_priority (match nth k sup None with Some _ => true | None => false end)
                                                     (match table_of D src k with Some _ => true | None => false end) cc)
                                     (match table_of D src k with Some t => t | None => [] end) in
      let supplied := fun (_ : vrec) k => match nth k sup None with Some v => v | None => None end in
      forallb (fun k => oq_eqb (adhoc_tf vrec nat Nat.eqb vval D route supplied r k) (nth k expd None)) (seq 0 ncol)
    end) adhoc
  end.

(* find_matches: (prior, cmps, pow table, t = 2^threshold, exact, n existing, m new, rule matrices,
   pair infos (n x m), tf of existing, tf of new, implementation pairs) *)
Definition fm_t := (Q * list (list level) * list (Q * Q * Q) * Q * bool * nat * nat * list (list nat) * list pinfo
                    * list (list (option Q)) * list (list (option Q)) * list (nat * nat))%type.
Definition run_fm (c : fm_t) : bool :=
  match c with (p, cmps, tbl, t, exact, n, m, mats, infos, etf, ntf, impl) =>
    let go := fun thr => ep_find_matches nat (tpow tbl) p cmps (outc_of m infos) (map (mat_rule m) mats)
                           (tf_of etf) (tf_of ntf) thr (seq 0 n) (seq 0 m) in
    let strict := go t in
    let admitted := go 0 in
    let nr := fun x => negb exact && near p t x in
    forallb tf_generable cmps && nodupb impl &&
    forallb (fun x => nr x || inb (fst x) impl) strict &&
    forallb (fun pr => inb pr (map fst strict) || existsb (fun x => pair_eqb (fst x) pr && nr x) admitted) impl
  end.

(* missing edges: (prior, cmps, pow table, T, n, id ranks, cluster ids, supplied prediction pairs,
   pair infos (n x n), tf of records, implementation pairs) *)
Definition me_t := (Q * list (list level) * list (Q * Q * Q) * option Q * nat * list nat * list nat * bool * list (option Z)
                    * list (nat * nat) * list pinfo * list (list (option Q)) * list (nat * nat))%type.
Definition run_me (c : me_t) : bool :=
  match c with (p, cmps, tbl, Th, n, ranks, dss, lo, cl, preds, infos, tfs, impl) =>
    (* link_and_dedupe / dedupe_only: composite id order; link_only: additionally different source datasets *)
    let adm := fun l r => Nat.ltb (nth l ranks 0%nat) (nth r ranks 0%nat)
                          && (negb lo || negb (Nat.eqb (nth l dss 0%nat) (nth r dss 0%nat))) in
    let go := fun thr => ep_missing_edges nat (tpow tbl) p cmps (outc_of n infos) adm (fun r => nth r cl None)
                           (fun l r => inb (l, r) preds) (tf_of tfs) thr (seq 0 n) in
    let strict := go Th in
    let all := go None in
    let nr := fun x => match Th with Some t => near p t x | None => false end in
    forallb tf_generable cmps && nodupb impl &&
    forallb (fun x => nr x || inb (fst x) impl) strict &&
    forallb (fun pr => inb pr (map fst strict) || existsb (fun x => pair_eqb (fst x) pr && nr x) all) impl
  end.
"""

FM_RULES = [[], ["l.a = r.a"], ["l.a = r.a", "l.b = r.b"],
            ["substr(l.c,1,1) = substr(r.c,1,1)", "l.d = r.d or l.a = r.a"], ["l.b = r.b or l.c = r.c", "l.d = r.d", "l.a = r.a"]]
NAMES = ["ta", "tb", "tc"]


def linked(case) -> bool:
    return case["spec"]["link_type"] != "dedupe_only"


def gen_tables(rng, link_type):
    """dedupe_only: one table; link types: 2-3 tables whose unique ids overlap (the identity of a
    record is then (source_dataset, unique_id)).  Returns rows with source_dataset filled in."""
    if link_type == "dedupe_only":
        rows = X.gen_data(rng, rng.randint(5, 8))
        for r in rows:
            r["source_dataset"] = "ta"
        return rows
    nt = rng.choice([2, 2, 3])
    rows = []
    for t in range(nt):
        part = X.gen_data(rng, rng.randint(2, 4 if nt == 2 else 3))
        ids = rng.sample([1, 2, 3, 4, 5, 10], len(part))      # overlapping across tables; '10' < '9' as strings
        for r, i in zip(part, ids):
            r["unique_id"] = i
            r["source_dataset"] = NAMES[t]
        rows += part
    for c in G.COLS:
        if all(r[c] is None for r in rows):
            rows[0][c] = X.DOM[c][0]
    return rows


def ident(r):
    return (r.get("source_dataset"), r.get("unique_id"))


def out_ident(case, rec, side):
    sds = rec.get(f"source_dataset_{side}") if linked(case) else "ta"
    uid = rec[f"unique_id_{side}"]
    return (sds, int(uid) if not isinstance(uid, str) or uid.lstrip("-").isdigit() else uid)


def frame_of(rows, with_sds, tf=None, with_uid=True):
    """DataFrame of records: string value columns, optional source_dataset / unique_id / tf_ columns
    (tf: list of dicts col -> Fraction|None, one per row)"""
    out = []
    for k, r in enumerate(rows):
        d = {}
        if with_uid:
            d["unique_id"] = r["unique_id"]
        if with_sds:
            d["source_dataset"] = r["source_dataset"]
        for c in G.COLS:
            d[c] = r.get(c)
        if tf is not None:
            for c, v in tf[k].items():
                d[f"tf_{c}"] = None if v is None else float(v)
        out.append(d)
    df = pd.DataFrame(out)
    for c in G.COLS:
        df[c] = df[c].astype("string")
    if with_sds:
        df["source_dataset"] = df["source_dataset"].astype("string")
    if tf is not None and out:
        for c in tf[0]:
            df[f"tf_{c}"] = df[f"tf_{c}"].astype("float64")
    return df


def make_linker(case, api=None):
    spec = case["spec"]
    if linked(case):
        names = sorted({r["source_dataset"] for r in case["rows"]})
        tabs = [frame_of([r for r in case["rows"] if r["source_dataset"] == n], False) for n in names]
    else:
        names, tabs = None, [frame_of(case["rows"], False)]
    lk = su.linker(tabs, G.settings_creator(spec, case["rules"], case["backend"]), case["backend"], aliases=names, api=api)
    G.apply_setters(lk._settings_obj, spec)
    for c, tbl in case["lookups"].items():
        df = pd.DataFrame([{c: v, f"tf_{c}": float(Fr(t))} for v, t in tbl.items()])
        df[c] = df[c].astype("string")
        lk.table_management.register_term_frequency_lookup(df, c)
    for c in case.get("computed_tf", []):          # __splink__df_tf_<col> computed from the data and cached
        lk.table_management.compute_tf_table(c)
    return lk


TFV = ["1/2", "1/4", "1/10", "3/100", "1/5", "7/10", "1/1000", "1/8", "9/10", "1/3"]


def near_misses(c, rows):
    """values that do NOT occur in column c of the data but are close to values that do (same length,
    same first character, edit distance 1) or belong to the column's domain: they reach fuzzy levels"""
    present = {r[c] for r in rows if r[c] is not None}
    cand = [v for v in X.DOM[c] if v not in present]
    for v in sorted(present):
        if len(v) > 1:
            cand.append(v[:-1] + ("z" if v[-1] != "z" else "y"))
    return [v for v in dict.fromkeys(cand) if v not in present]


def gen_lookups(rng, spec, rows, force_cols=()):
    """registered TF lookup tables: arbitrary frequencies for values of the data (NOT the data's own
    frequencies), some data values missing (NULL tf), and values that do not occur in the data at all"""
    out = {}
    for c in spec["tf_cols"]:
        if c in force_cols or rng.random() < 0.5:
            vals = sorted({r[c] for r in rows if r[c] is not None})
            tbl = {v: rng.choice(TFV) for v in vals if rng.random() < 0.75}
            if not tbl:
                tbl[vals[0]] = "1/4"
            absent = near_misses(c, rows)
            rng.shuffle(absent)
            for v in absent[:rng.randint(1, 3)]:
                tbl[v] = rng.choice(TFV)
            tbl["zzz-unseen"] = "1/100"
            out[c] = tbl
    return out


def absent_lookup_values(case, c):
    present = {r[c] for r in case["rows"] if r[c] is not None}
    return [v for v in case["lookups"].get(c, {}) if v not in present and v != "zzz-unseen"]


def plant_absent(rng, case, row, prob):
    """with probability prob give the record a value that only the registered lookup knows"""
    cols = [c for c in case["lookups"] if absent_lookup_values(case, c)]
    if cols and rng.random() < prob:
        c = rng.choice(cols)
        row[c] = rng.choice(absent_lookup_values(case, c))
        return c
    return None


def tf_for_value(spec, rows, lookups, c, v):
    """TF that the linker's own data / registered table gives to value v of column c (None = NULL)"""
    if v is None:
        return None
    if c in lookups:
        return Fr(lookups[c][v]) if v in lookups[c] else None
    nn = [r[c] for r in rows if r[c] is not None]
    n = nn.count(v)
    return Fr(n, len(nn)) if n else None


def new_records(rng, case):
    """new records: copies of existing records (seen values), records with unseen values / NULLs;
    identities distinct among the new records, several clashing with existing identities"""
    rows = case["rows"]
    out = []
    k = rng.randint(2, 4)
    mode = "none"
    if linked(case):
        mode = rng.choice(["none", "existing", "mixed"])      # no source_dataset column / existing names / also a new name
    ids = rng.sample([1, 2, 3, 4, 101, 102, 103], k)
    used = set()
    for nid in ids:
        base = dict(rng.choice(rows))
        base["_copy_of"] = None
        r = rng.random()
        if r < 0.45:
            base["_copy_of"] = ident(base)             # exact copy of an existing record
        elif r < 0.8:
            c = rng.choice(G.COLS)
            base[c] = rng.choice(["zed", "qqq", None, X.DOM[c][0], X.DOM[c][-1]])
        else:
            for c in G.COLS:
                if rng.random() < 0.5:
                    base[c] = rng.choice(X.DOM[c] + ["unseen", None])
        if plant_absent(rng, case, base, 0.5):
            base["_copy_of"] = None
        base["unique_id"] = nid
        if mode == "none":
            base["source_dataset"] = "new_record" if linked(case) else "ta"
        elif mode == "existing":
            base["source_dataset"] = rng.choice(sorted({x["source_dataset"] for x in rows}))
        else:
            base["source_dataset"] = rng.choice(sorted({x["source_dataset"] for x in rows}) + ["tz"])
        if ident(base) in used:
            continue
        used.add(ident(base))
        out.append(base)
    return out, mode


def rule_matrices(rules, lrows, rrows):
    import duckdb
    con = duckdb.connect()
    for name, rs in (("tl", lrows), ("tr", rrows)):
        df = pd.DataFrame([{"idx": i, **{k: r.get(k) for k in ["unique_id", "source_dataset"] + G.COLS}} for i, r in enumerate(rs)])
        for c in G.COLS + ["source_dataset"]:
            df[c] = df[c].astype("string")
        con.register(name + "0", df)
        con.execute(f"create table {name} as select idx, unique_id, cast(source_dataset as varchar) as source_dataset, "
                    + ", ".join(f"cast({c} as varchar) as {c}" for c in G.COLS) + f" from {name}0")
    mats = []
    n, m = len(lrows), len(rrows)
    for rule in rules:
        res = {(a, b): v for a, b, v in con.execute(f"select l.idx, r.idx, ({rule}) from tl l cross join tr r").fetchall()}
        mats.append([2 if res[(i, j)] is None else int(bool(res[(i, j)])) for i in range(n) for j in range(m)])
    con.close()
    return mats


def composite_ranks(case):
    rows = case["rows"]
    if not linked(case):
        return [r["unique_id"] for r in rows]
    keys = [f"{r['source_dataset']}-__-{r['unique_id']}" for r in rows]
    assert len(set(keys)) == len(keys)
    order = sorted(range(len(rows)), key=lambda i: keys[i])
    rank = [0] * len(rows)
    for p, i in enumerate(order):
        rank[i] = p
    return rank


def run_entries(case, rng, api_hook=None):
    """run every entry point; returns scored rows per entry and the inputs of the two set claims.
    api_hook(api) may instrument the DatabaseAPI (used by the SQL-capture translator)."""
    spec, rows, lookups = case["spec"], case["rows"], case["lookups"]
    lnk = linked(case)
    byid = {ident(r): r for r in rows}
    assert len(byid) == len(rows)
    api = su.make_api(case["backend"])
    if api_hook:
        api_hook(api, "linker")
    lk = make_linker(case, api)
    if api_hook:
        api_hook(api, "predict")
    pred = su.records(lk.inference.predict())
    predmap = {}
    for r in pred:
        predmap[frozenset((out_ident(case, r, "l"), out_ident(case, r, "r")))] = r
    data_tf = {c: {ident(r): tf_for_value(spec, rows, lookups, c, r[c]) for r in rows} for c in spec["tf_cols"]}
    tfmeta = []           # per entry: how each side gets its TF: ("data",) | ("adhoc", concat_with_tf cached, supplied dict or None)
    entries = []          # (entry name, left row, right row, tfv dict col -> (l, r), engine record, predict key or None)

    def tfv_rows(rl, rr, left=None, right=None):
        out = {}
        for c in spec["tf_cols"]:
            a = left[c] if left is not None and c in left else tf_for_value(spec, rows, lookups, c, rl.get(c))
            b = right[c] if right is not None and c in right else tf_for_value(spec, rows, lookups, c, rr.get(c))
            out[c] = (a, b)
        return out

    for r in pred:
        il, ir = out_ident(case, r, "l"), out_ident(case, r, "r")
        entries.append(("predict", byid[il], byid[ir], {c: (data_tf[c][il], data_tf[c][ir]) for c in spec["tf_cols"]}, r, None))
        tfmeta.append((("data",), ("data",)))

    ids = list(byid)

    def pick_sides(multi):
        """disjoint left / right record lists (1 x 1, or up to 2 x 3 rows for multi-row inputs)"""
        k = len(ids)
        nl, nr = (1, 1) if not multi else (rng.randint(1, 2), rng.randint(1, 3))
        nl, nr = min(nl, max(1, k - 1)), min(nr, max(1, k - 1))
        chosen = rng.sample(ids, min(k, nl + nr))
        L, R = chosen[:nl], chosen[nl:nl + nr]
        return (L, R) if R else (L, L)

    def collect(name, out, Lrows, Rrows, supL, supR, comparable):
        got = {}
        for rec in out:
            got[(out_ident(case, rec, "l"), out_ident(case, rec, "r"))] = rec
        assert len(got) == len(out) == len(Lrows) * len(Rrows), (name, len(out), len(Lrows), len(Rrows))
        for a, rl in enumerate(Lrows):
            for b, rr in enumerate(Rrows):
                rec = got[(ident(rl), ident(rr))]
                key = frozenset((ident(rl), ident(rr))) if comparable and ident(rl) != ident(rr) else None
                entries.append((name, rl, rr, tfv_rows(rl, rr, supL[a] if supL else None, supR[b] if supR else None), rec, key))
                tfmeta.append((("adhoc", True, supL[a] if supL else None), ("adhoc", True, supR[b] if supR else None)))

    # ---- compare_two_records (warm linker: TF by registered table / select distinct) ----
    if api_hook:
        api_hook(api, "compare_two_records")
    for q in range(case["n_c2r"]):
        L, R = pick_sides(multi=(q == 0))
        Lrows, Rrows = [dict(byid[i]) for i in L], [dict(byid[j]) for j in R]
        variant = rng.choice(["plain", "plain", "unseen", "supplied"])
        supL = supR = None
        if variant == "unseen":
            if not plant_absent(rng, case, Rrows[0], 0.7):
                c = rng.choice(G.COLS)
                Rrows[0][c] = rng.choice(["zed", None, "unseen"])
            if rng.random() < 0.3:
                plant_absent(rng, case, Lrows[0], 1.0)
        if variant == "supplied" and spec["tf_cols"]:
            cs = [c for c in spec["tf_cols"] if rng.random() < 0.7] or spec["tf_cols"][:1]
            vals = ["1/2", "1/10", "3/100", "1/4", "9/10"]
            supL = [{c: Fr(rng.choice(vals)) for c in cs} for _ in Lrows]
            supR = [{c: Fr(rng.choice(vals)) for c in cs} for _ in Rrows]
        out = su.records(lk.inference.compare_two_records(frame_of(Lrows, lnk, supL), frame_of(Rrows, lnk, supR)))
        collect("compare_two_records:" + variant, out, Lrows, Rrows, supL, supR, variant == "plain")

    # ---- compare_two_records on a cold linker: no cached concat table -> NULL tf unless registered ----
    if case["cold"]:
        lk2 = make_linker(case)
        L, R = pick_sides(multi=False)
        rl, rr = dict(byid[L[0]]), dict(byid[R[0]])
        plant_absent(rng, case, rr, 0.6)
        out = su.records(lk2.inference.compare_two_records(frame_of([rl], lnk), frame_of([rr], lnk)))
        tfv = {c: ((tf_for_value(spec, rows, lookups, c, rl[c]), tf_for_value(spec, rows, lookups, c, rr[c]))
                   if (c in lookups or c in case.get("computed_tf", [])) else (None, None)) for c in spec["tf_cols"]}
        assert len(out) == 1
        entries.append(("compare_two_records:cold", rl, rr, tfv, out[0], None))
        tfmeta.append((("adhoc", False, None), ("adhoc", False, None)))

    # ---- realtime compare_records: the same model as a dictionary, TF values supplied; first call
    #      generates the SQL (use_sql_from_cache=False or cache miss), later calls reuse the cached text ----
    from splink.internals.realtime import compare_records
    model = lk.misc.save_model_to_json()
    api_rt = su.make_api(case["backend"])
    if api_hook:
        api_hook(api_rt, "realtime")
    for q in range(case["n_rt"]):
        L, R = pick_sides(multi=(q == 1))
        Lrows, Rrows = [byid[i] for i in L], [byid[j] for j in R]
        tl = [{c: data_tf[c][i] for c in spec["tf_cols"]} for i in L]
        tr = [{c: data_tf[c][j] for c in spec["tf_cols"]} for j in R]
        use_cache = case["rt_cache"][q % len(case["rt_cache"])]
        out = su.records(compare_records(frame_of(Lrows, lnk, tl), frame_of(Rrows, lnk, tr), model, api_rt,
                                         use_sql_from_cache=use_cache))
        collect("realtime.compare_records:" + ("cached_sql" if use_cache else "fresh_sql"), out, Lrows, Rrows, tl, tr, True)

    # ---- realtime sequences over models that differ ONLY in m / u / TF configuration, given in every form the
    #      API accepts, with the SQL cache on: each call must be scored with ITS model ----
    if api_hook:
        api_hook(api_rt, "realtime_sequence")
    rt_seq = realtime_sequences(case, rng, api_rt, byid, ids, lnk, data_tf, tfv_rows)

    # ---- find_matches_to_new_records ----
    if api_hook:
        api_hook(api, "find_matches")
    new_full, sds_mode = new_records(rng, case)
    new = [{k: v for k, v in r.items() if k != "_copy_of"} for r in new_full]
    with_sds = lnk and sds_mode != "none"
    rules = case["fm_rules"]
    thr = case["fm_thr"]
    allout = su.records(lk.inference.find_matches_to_new_records(frame_of(new, with_sds), blocking_rules=rules, match_weight_threshold=-1e6))
    if isinstance(thr, dict):
        fin = [r["match_weight"] for r in allout if r["match_weight"] is not None and not math.isinf(r["match_weight"])]
        thr = fin[thr["row"] % len(fin)] if fin else -4.0
    fmout = su.records(lk.inference.find_matches_to_new_records(frame_of(new, with_sds), blocking_rules=rules, match_weight_threshold=thr))
    newidx = {ident(r): k for k, r in enumerate(new)}
    exidx = {ident(r): k for k, r in enumerate(rows)}
    for r in allout:
        rl, rr = byid[out_ident(case, r, "l")], new[newidx[out_ident(case, r, "r")]]
        # a new record that copies an existing record: comparable with predict on (existing, original)
        orig = new_full[newidx[ident(rr)]]["_copy_of"]
        key = frozenset((orig, ident(rl))) if orig is not None and orig != ident(rl) else None
        entries.append(("find_matches_to_new_records", rl, rr, tfv_rows(rl, rr), r, key))
        tfmeta.append((("data",), ("adhoc", True, None)))
    fm = {"thr": thr, "rules": rules, "new": new, "new_source_dataset_column": sds_mode,
          "impl": [(exidx[out_ident(case, r, "l")], newidx[out_ident(case, r, "r")]) for r in fmout],
          "mats": rule_matrices(rules, rows, new),
          "etf": [[data_tf[c][ident(r)] for c in spec["tf_cols"]] for r in rows],
          "ntf": [[tf_for_value(spec, rows, lookups, c, r.get(c)) for c in spec["tf_cols"]] for r in new],
          "outc": X.outcomes_rows(case, lk, [(rl, rr) for rl in rows for rr in new])}

    # ---- missing within-cluster edges ----
    if api_hook:
        api_hook(api, "missing_edges")
    ncl = rng.choice([1, 2, 2, 3])
    cl = {ident(r): rng.randrange(ncl) for r in rows}
    keep_frac = rng.choice([0.0, 0.3, 0.6, 1.0])
    sub = [r for r in pred if rng.random() < keep_frac]
    cdf = pd.DataFrame([{"cluster_id": cl[ident(r)], "unique_id": r["unique_id"], **({"source_dataset": r["source_dataset"]} if lnk else {})}
                        for r in rows])
    dfc = lk.table_management.register_table(cdf, "c10_clusters", overwrite=True)
    dfp = None
    if sub or rng.random() < 0.5:
        cols = list(pred[0].keys()) if pred else (["unique_id_l", "unique_id_r"] + (["source_dataset_l", "source_dataset_r"] if lnk else []))
        pdf = pd.DataFrame(sub, columns=cols).astype({"unique_id_l": "int64", "unique_id_r": "int64"})
        if lnk:
            pdf = pdf.astype({"source_dataset_l": "string", "source_dataset_r": "string"})
        # the supplied predictions are either an ordinary registered table or registered through
        # register_table_predict (cached under the templated name __splink__df_predict) - and then either passed or not
        pred_mode = rng.choice(["plain", "register_table_predict", "register_table_predict", "register_table_predict_not_passed"])
        if pred_mode == "plain":
            dfp = lk.table_management.register_table(pdf, "c10_pred", overwrite=True)
        else:
            dfp = lk.table_management.register_table_predict(pdf, overwrite=True)
            if pred_mode.endswith("not_passed"):
                dfp, sub = None, []
    else:
        pred_mode = "none"
    me_thr = case["me_thr"]
    meout = su.records(lk.inference._score_missing_cluster_edges(dfc, dfp, threshold_match_weight=me_thr))
    for r in meout:
        il, ir = out_ident(case, r, "l"), out_ident(case, r, "r")
        entries.append(("score_missing_cluster_edges", byid[il], byid[ir], {c: (data_tf[c][il], data_tf[c][ir]) for c in spec["tf_cols"]}, r,
                        frozenset((il, ir))))
        tfmeta.append((("data",), ("data",)))
    names = sorted({r["source_dataset"] for r in rows})
    me = {"predictions": pred_mode, "supplied": dfp is not None, "thr": me_thr, "clusters": [cl[ident(r)] for r in rows], "ranks": composite_ranks(case),
          "dss": [names.index(r["source_dataset"]) for r in rows], "link_only": spec["link_type"] == "link_only",
          "preds": [(exidx[out_ident(case, r, "l")], exidx[out_ident(case, r, "r")]) for r in sub] if dfp is not None else [],
          "impl": [(exidx[out_ident(case, r, "l")], exidx[out_ident(case, r, "r")]) for r in meout],
          "tfs": fm["etf"],
          "outc": X.outcomes_rows(case, lk, [(rl, rr) for rl in rows for rr in rows])}
    if api_hook:
        api_hook(api, "done")
    # outcomes for the scored rows, in each entry point's own orientation
    ocs = X.outcomes_rows(case, lk, [(e[1], e[2]) for e in entries])
    only = {c: set(absent_lookup_values(case, c)) for c in lookups}
    n_planted = sum(1 for e in entries if e[0] != "predict" and any(e[k].get(c) in only[c] for k in (1, 2) for c in only))
    assert len(tfmeta) == len(entries)
    rt_oc = X.outcomes_rows(case, lk, [(e[2], e[3]) for e in rt_seq["rows"]])
    rt_seq["outcomes"] = rt_oc
    return {"n_planted": n_planted, "tfmeta": tfmeta, "rt_seq": rt_seq, "entries": entries, "outcomes": ocs, "predmap": predmap, "fm": fm, "me": me, "linker": lk}


def vary_parameters(rng, spec):
    """a model with the same columns, comparison types and level conditions whose m / u / TF weight / minimum-u
    (and sometimes the TF flag of a level) differ; parameters that the first model set through a setter are
    given to the constructors here"""
    import copy
    mv, uv = (G.M_T, G.U_T) if spec.get("mode") == "T" else (G.M_P2, G.U_P2) if spec.get("mode") == "P2" else (G.M_X, G.U_X)
    b = copy.deepcopy(spec)
    for c in b["comparisons"]:
        for lv in c["levels"]:
            lv["u_via"], lv["w_via"] = "creator", "creator"
            if lv["kind"] == "null":
                continue
            lv["m"] = rng.choice([v for v in mv if v != lv["m"]] or mv)
            if Fr(lv["u"]) != 0:
                lv["u"] = rng.choice([v for v in uv if v != lv["u"]] or uv)
            if lv["tf_col"] and c["route"] not in ("lib_exact", "lib_lev", "lib_fnsn"):
                if Fr(lv["w"]) != 0:
                    lv["w"] = rng.choice([w for w in G.W_ORD if w != lv["w"]])
                lv["min_u"] = rng.choice(G.MINU)
    # library comparisons: the term_frequency_adjustments flag itself may differ
    for c in b["comparisons"]:
        if c["route"] in ("lib_exact", "lib_lev") and rng.random() < 0.5:
            on = any(lv["tf_col"] for lv in c["levels"])
            if not on and any(lv["kind"] == "exact" and Fr(lv["u"]) == 0 for lv in c["levels"]):
                continue          # u_exact = 0 would make the factor inf * 0 (IEEE NaN, outside the model)
            for lv in c["levels"]:
                if lv["kind"] == "exact":
                    lv["tf_col"] = None if on else c["name"]
    b["tf_cols_all"] = sorted(set(spec["tf_cols"]) | {lv["tf_col"] for c in b["comparisons"] for lv in c["levels"] if lv["tf_col"]})
    b["tf_cols"] = sorted({lv["tf_col"] for c in b["comparisons"] for lv in c["levels"] if lv["tf_col"]})
    return b


def as_creators(spec):
    import copy
    a = copy.deepcopy(spec)
    for c in a["comparisons"]:
        for lv in c["levels"]:
            lv["u_via"], lv["w_via"] = "creator", "creator"
    return a


def settings_in_form(spec, form, dialect, tmpdir, tag):
    """the same model as: dict holding creator objects | SettingsCreator | plain (json) dict | path string | Path"""
    import json
    from pathlib import Path
    sc = G.settings_creator(spec, ["1=1"], dialect)
    if form == "creator_dict":
        return {"link_type": spec["link_type"], "comparisons": G.comparison_creators(spec, dialect),
                "blocking_rules_to_generate_predictions": ["1=1"], "probability_two_random_records_match": G.fl(spec["prior"]),
                "retain_intermediate_calculation_columns": True, "retain_matching_columns": True}
    if form == "settings_creator":
        return sc
    d = sc.create_settings_dict(dialect)
    if form == "plain_dict":
        return d
    p = Path(tmpdir) / f"c10_model_{tag}.json"
    p.write_text(json.dumps(d))
    return str(p) if form == "path_str" else p


def realtime_sequences(case, rng, api_rt, byid, ids, lnk, data_tf, tfv_rows):
    import tempfile
    from splink.internals.realtime import compare_records
    spec = case["spec"]
    models = [as_creators(spec), vary_parameters(rng, spec)]
    if rng.random() < 0.5:
        models.append(vary_parameters(rng, spec))
    alltf = sorted(set().union(*[set(m.get("tf_cols_all", m["tf_cols"])) for m in models]))
    rows = []          # (model index, entry name, left, right, tfv, engine record)
    keep = []          # objects that must stay alive (SettingsCreator cache entries are weak references)
    forms = ["creator_dict" if rng.random() < 0.6 else "settings_creator",
             rng.choice(["settings_creator", "plain_dict", "path_str", "path", "creator_dict"])]
    with tempfile.TemporaryDirectory(prefix="c10rt_") as tmp:
        for fi, form in enumerate(forms):
            objs = [settings_in_form(m, form, case["backend"], tmp, f"{fi}_{k}") for k, m in enumerate(models)]
            keep.append(objs)
            order = [0, 1] + ([2] if len(models) > 2 else []) + [0]
            for mi in order:
                i, j = rng.sample(ids, 2)
                rl, rr = byid[i], byid[j]
                # tf values of the data for every TF column any of the models uses
                tl = {c: (data_tf[c][i] if c in data_tf else tf_for_value(spec, case["rows"], case["lookups"], c, rl.get(c))) for c in alltf}
                tr = {c: (data_tf[c][j] if c in data_tf else tf_for_value(spec, case["rows"], case["lookups"], c, rr.get(c))) for c in alltf}
                out = su.records(compare_records(frame_of([rl], lnk, [tl]), frame_of([rr], lnk, [tr]), objs[mi], api_rt,
                                                 use_sql_from_cache=True))
                assert len(out) == 1
                m = models[mi]
                rows.append((mi, f"realtime.compare_records:{form}", rl, rr, {c: (tl[c], tr[c]) for c in m["tf_cols"]}, out[0]))
    return {"models": models, "rows": rows, "forms": forms}


def scoring_terms_rt(case, res):
    """one Coq case per model of the realtime sequences: its rows against ITS parameters"""
    out = []
    seq = res["rt_seq"]
    for mi, m in enumerate(seq["models"]):
        ent = [(e, oc) for e, oc in zip(seq["rows"], seq["outcomes"]) if e[0] == mi]
        powtbl, pterms, infos = {}, [], []
        for e, oc in ent:
            _, name, rl, rr, tfv, rec = e
            py = X.py_score(m, oc, tfv)
            X.pow_rows(py, powtbl)
            t, bad = X.pair_term(m, oc, tfv, rec)
            pterms.append(t)
            infos.append({"entry": name, "model": mi, "pair": (ident(rl), ident(rr)), "py": py, "left": rl, "right": rr,
                          "tf": {c: [None if v is None else str(v) for v in tfv[c]] for c in tfv}, "rec": rec})
        term = (f"({coq_Q(Fr(m['prior']))}, {G.cmps_term(m)}, {X.powtbl_term(powtbl)}, (@None Q), (@None Q), false, "
                + coq_list(pterms, "ipair") + ")")
        out.append((term, infos, m))
    return out


def scoring_term(case, res):
    spec = case["spec"]
    powtbl, pterms, infos = {}, [], []
    for e, oc in zip(res["entries"], res["outcomes"]):
        name, rl, rr, tfv, rec, cmp_key = e
        py = X.py_score(spec, oc, tfv)
        X.pow_rows(py, powtbl)
        t, bad = X.pair_term(spec, oc, tfv, rec)
        pterms.append(t)
        infos.append({"entry": name, "pair": (ident(rl), ident(rr)), "py": py, "left": rl, "right": rr,
                      "tf": {c: [None if v is None else str(v) for v in tfv[c]] for c in tfv}, "rec": rec})
    term = (f"({coq_Q(Fr(spec['prior']))}, {G.cmps_term(spec)}, {X.powtbl_term(powtbl)}, (@None Q), (@None Q), false, "
            + coq_list(pterms, "ipair") + ")")
    return term, infos, powtbl


def tf_term(case, res):
    """inputs for run_tf: value ids per TF column, tables, and the tf values that were given to the scorer"""
    spec = case["spec"]
    cols = spec["tf_cols"]
    ids = {c: {} for c in cols}

    def vid(c, v):
        if v is None:
            return "None"
        d = ids[c]
        if v not in d:
            d[v] = len(d)
        return f"(Some {d[v]}%nat)"

    def vrec(row):
        return coq_list([vid(c, row.get(c)) for c in cols], "(option nat)")
    D = coq_list([vrec(r) for r in case["rows"]], "vrec")
    own, adhoc, seen = [], [], set()
    for e, meta in zip(res["entries"], res["tfmeta"]):
        for side, (row, m) in enumerate(((e[1], meta[0]), (e[2], meta[1]))):
            expd = [e[3][c][side] for c in cols]
            et = coq_list([X.oq(v) for v in expd], "(option Q)")
            if m[0] == "data":
                t = f"({vrec(row)}, {et})"
                if t not in seen:
                    seen.add(t)
                    own.append(t)
            else:
                sup = m[2] or {}
                st = coq_list([("(Some " + X.oq(sup[c]) + ")") if c in sup else "(@None (option Q))" for c in cols], "(option (option Q))")
                t = f"({vrec(row)}, {coq_bool(m[1])}, {st}, {et})"
                if t not in seen:
                    seen.add(t)
                    adhoc.append(t)
    src = []
    for c in cols:                       # after all values have ids
        if c in case["lookups"]:
            rows = [f"({ids[c].setdefault(v, len(ids[c]))}%nat, {coq_Q(Fr(q))})" for v, q in case["lookups"][c].items()]
            src.append("(SrcRegistered " + coq_list(rows, "(nat * Q)") + ")")
        elif c in case.get("computed_tf", []):
            src.append("SrcComputed")
        else:
            src.append("SrcNoTable")
    return (f"({D}, {coq_list(src, 'tfsrc')}, {len(cols)}%nat, {coq_list(own, '(vrec * list (option Q))')}, "
            + coq_list(adhoc, "(vrec * bool * list (option (option Q)) * list (option Q))") + ")")


def _infos_term(outcs):
    return coq_list(["(mki " + coq_list([coq_list([f"{v}%nat" for v in lv], "nat") for lv in oc], "(list nat)") + ")" for oc in outcs], "pinfo")


def _tf_table(tab):
    return coq_list([coq_list([X.oq(v) for v in row], "(option Q)") for row in tab], "(list (option Q))")


def set_powtbl(spec, outcs, tfl_of, tfr_of, n, m, powtbl):
    for i in range(n):
        for j in range(m):
            tfv = {c: (tfl_of(i)[k], tfr_of(j)[k]) for k, c in enumerate(spec["tf_cols"])}
            X.pow_rows(X.py_score(spec, outcs[i * m + j], tfv), powtbl)


def fm_term(case, res):
    spec, fm = case["spec"], res["fm"]
    n, m = len(case["rows"]), len(fm["new"])
    powtbl = {}
    set_powtbl(spec, fm["outc"], lambda i: fm["etf"][i], lambda j: fm["ntf"][j], n, m, powtbl)
    t = Fr(2.0 ** fm["thr"])
    return (f"({coq_Q(Fr(spec['prior']))}, {G.cmps_term(spec)}, {X.powtbl_term(powtbl)}, {coq_Q(t)}, {coq_bool(bool(case.get('exact_thr')))}, "
            f"{n}%nat, {m}%nat, {coq_list([coq_list([f'{v}%nat' for v in mt], 'nat') for mt in fm['mats']], '(list nat)')}, "
            f"{_infos_term(fm['outc'])}, {_tf_table(fm['etf'])}, {_tf_table(fm['ntf'])}, "
            + coq_list([f"({a}%nat, {b}%nat)" for a, b in fm["impl"]], "(nat * nat)") + ")")


def me_term(case, res):
    spec, me = case["spec"], res["me"]
    n = len(case["rows"])
    powtbl = {}
    set_powtbl(spec, me["outc"], lambda i: me["tfs"][i], lambda j: me["tfs"][j], n, n, powtbl)
    T = None if me["thr"] is None else Fr(2.0 ** me["thr"])
    return (f"({coq_Q(Fr(spec['prior']))}, {G.cmps_term(spec)}, {X.powtbl_term(powtbl)}, {X.oq(T)}, {n}%nat, "
            f"{coq_list([f'{v}%nat' for v in me['ranks']], 'nat')}, {coq_list([f'{v}%nat' for v in me['dss']], 'nat')}, "
            f"{coq_bool(me['link_only'])}, "
            f"{coq_list(['(Some ' + coq_Z(v) + ')' for v in me['clusters']], '(option Z)')}, "
            f"{coq_list([f'({a}%nat, {b}%nat)' for a, b in me['preds']], '(nat * nat)')}, "
            f"{_infos_term(me['outc'])}, {_tf_table(me['tfs'])}, "
            + coq_list([f"({a}%nat, {b}%nat)" for a, b in me["impl"]], "(nat * nat)") + ")")


# ---------------------------------------------------------------------------------------------
# Python transcriptions of the two set claims (to describe failures)
# ---------------------------------------------------------------------------------------------
def py_fm_expected(case, res):
    spec, fm = case["spec"], res["fm"]
    n, m = len(case["rows"]), len(fm["new"])
    t = Fr(2.0 ** fm["thr"])
    out, near = [], []
    for i in range(n):
        for j in range(m):
            adm = (not fm["mats"]) or any(mt[i * m + j] == 1 for mt in fm["mats"])
            if not adm:
                continue
            tfv = {c: (fm["etf"][i][k], fm["ntf"][j][k]) for k, c in enumerate(spec["tf_cols"])}
            py = X.py_score(spec, fm["outc"][i * m + j], tfv)
            if py is None:
                continue
            s = py["score"]
            if s != "inf" and abs(s - t) <= Fr(1, 10 ** 9) * t:
                near.append((i, j))
            if s == "inf" or s > t:
                out.append((i, j))
    return sorted(out), sorted(near)


def py_me_expected(case, res):
    spec, me = case["spec"], res["me"]
    n = len(case["rows"])
    T = None if me["thr"] is None else Fr(2.0 ** me["thr"])
    out, near = [], []
    for i in range(n):
        for j in range(n):
            if not (me["ranks"][i] < me["ranks"][j]) or me["clusters"][i] != me["clusters"][j] or (i, j) in me["preds"] \
                    or (me["link_only"] and me["dss"][i] == me["dss"][j]):
                continue
            tfv = {c: (me["tfs"][i][k], me["tfs"][j][k]) for k, c in enumerate(spec["tf_cols"])}
            py = X.py_score(spec, me["outc"][i * n + j], tfv)
            if py is None:
                if T is None:
                    out.append((i, j))
                continue
            s = py["score"]
            if T is not None and s != "inf" and abs(s - T) <= Fr(1, 10 ** 9) * T:
                near.append((i, j))
            if T is None or s == "inf" or s >= T:
                out.append((i, j))
    return sorted(out), sorted(near)
