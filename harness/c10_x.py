"""C10 correspondence: compare_two_records, realtime compare_records, find_matches_to_new_records,
_score_missing_cluster_edges and predict() of the real Splink on the same seeded model and data,
against (a) the shared Scoring model evaluated in Coq on each entry point's own inputs
(outcomes evaluated by the engine in the entry point's orientation, TF values according to the
entry point's TF route), (b) each other (gamma and match weight of the same record pair), and
(c) the EntryPoints model for the two set-valued claims (find_matches, missing edges)."""
from __future__ import annotations

import math
from fractions import Fraction as Fr

import pandas as pd

from harness import c02_gen as G
from harness import c02_x as X
from harness import splink_util as su
from harness.common import coq_Q, coq_Z, coq_bool, coq_list, coq_opt

HEADER = X.HEADER.replace("From Splinkv Require Import Base.TV Model.Scoring.",
                          "From Splinkv Require Import Base.TV Model.Blocking Model.Scoring Model.EntryPoints.") + """
Record pinfo := { i_outc : list (list nat) }.
Definition pi0 := {| i_outc := [] |}.
Definition mki a := Build_pinfo a.
Definition pair_eqb (a b : nat * nat) : bool := Nat.eqb (fst a) (fst b) && Nat.eqb (snd a) (snd b).
Definition inb (x : nat * nat) (l : list (nat * nat)) : bool := existsb (pair_eqb x) l.
Fixpoint nodupb (l : list (nat * nat)) : bool :=
  match l with [] => true | x :: t => negb (inb x t) && nodupb t end.
Definition tf_of (tab : list (list (option Q))) (r : nat) : tfv := fun k => nth k (nth r tab []) None.
Definition mat_rule (m : nat) (mat : list nat) : nat -> nat -> tv := fun l r => tvn (nth (l * m + r) mat 2%nat).
Definition outc_of (m : nat) (infos : list pinfo) : nat -> nat -> list (nat -> tv) :=
  fun l r => map (fun v => fun i => tvn (nth i v 2%nat)) (i_outc (nth (l * m + r) infos pi0)).
Definition near (p t : Q) (x : scored nat) : bool :=
  match row_score nat p x with Some (Fin q) => qclose e9 q t | _ => false end.

(* find_matches: (prior, cmps, pow table, t = 2^threshold, exact, n existing, m new, rule matrices,
   pair infos (n x m), tf of existing, tf of new, implementation pairs) *)
Definition fm_t := (Q * list (list level) * list (Q * Q * Q) * Q * bool * nat * nat * list (list nat) * list pinfo
                    * list (list (option Q)) * list (list (option Q)) * list (nat * nat))%type.
Definition run_fm (c : fm_t) : bool :=
  match c with (p, cmps, tbl, t, exact, n, m, mats, infos, etf, ntf, impl) =>
    let go := fun thr => ep_find_matches nat (tpow tbl) p cmps (outc_of m infos) (map (mat_rule m) mats)
                           (tf_of etf) (tf_of ntf) thr (seq 0 n) (seq 0 m) in
    let strict := go t in
    let admitted := go 0 in
    let nr := fun x => negb exact && near p t x in
    forallb tf_generable cmps && nodupb impl &&
    forallb (fun x => nr x || inb (fst x) impl) strict &&
    forallb (fun pr => inb pr (map fst strict) || existsb (fun x => pair_eqb (fst x) pr && nr x) admitted) impl
  end.

(* missing edges: (prior, cmps, pow table, T, n, id ranks, cluster ids, supplied prediction pairs,
   pair infos (n x n), tf of records, implementation pairs) *)
Definition me_t := (Q * list (list level) * list (Q * Q * Q) * option Q * nat * list nat * list (option Z)
                    * list (nat * nat) * list pinfo * list (list (option Q)) * list (nat * nat))%type.
Definition run_me (c : me_t) : bool :=
  match c with (p, cmps, tbl, Th, n, ranks, cl, preds, infos, tfs, impl) =>
    let adm := fun l r => Nat.ltb (nth l ranks 0%nat) (nth r ranks 0%nat) in
    let go := fun thr => ep_missing_edges nat (tpow tbl) p cmps (outc_of n infos) adm (fun r => nth r cl None)
                           (fun l r => inb (l, r) preds) (tf_of tfs) thr (seq 0 n) in
    let strict := go Th in
    let all := go None in
    let nr := fun x => match Th with Some t => near p t x | None => false end in
    forallb tf_generable cmps && nodupb impl &&
    forallb (fun x => nr x || inb (fst x) impl) strict &&
    forallb (fun pr => inb pr (map fst strict) || existsb (fun x => pair_eqb (fst x) pr && nr x) all) impl
  end.
"""

FM_RULES = [[], ["l.a = r.a"], ["l.a = r.a", "l.b = r.b"],
            ["substr(l.c,1,1) = substr(r.c,1,1)", "l.d = r.d or l.a = r.a"], ["l.b = r.b or l.c = r.c", "l.d = r.d", "l.a = r.a"]]


def tf_for_value(spec, rows, lookups, c, v):
    """TF that the linker's own data / registered table gives to value v of column c (None = NULL)"""
    if v is None:
        return None
    if c in lookups:
        return Fr(lookups[c][v]) if v in lookups[c] else None
    nn = [r[c] for r in rows if r[c] is not None]
    n = nn.count(v)
    return Fr(n, len(nn)) if n else None


def one_row_frame(row, tf=None):
    d = dict(row)
    if tf:
        for c, v in tf.items():
            d[f"tf_{c}"] = None if v is None else float(v)
    df = pd.DataFrame([d])
    for c in G.COLS:
        df[c] = df[c].astype("string")
    if tf:
        for c in tf:
            df[f"tf_{c}"] = df[f"tf_{c}"].astype("float64")
    return df


def new_records(rng, rows):
    """new records: copies of existing records (seen values), records with unseen values / NULLs;
    ids distinct among the new records, some equal to existing ids"""
    out = []
    k = rng.randint(2, 4)
    ids = rng.sample([1, 2, 3, 101, 102, 103, 104], k)
    for nid in ids:
        base = dict(rng.choice(rows))
        base["_copy_of"] = None
        r = rng.random()
        if r < 0.45:
            base["_copy_of"] = base["unique_id"]     # exact copy of an existing record
        elif r < 0.8:
            c = rng.choice(G.COLS)
            base[c] = rng.choice(["zed", "qqq", None, X.DOM[c][0], X.DOM[c][-1]])
        else:
            for c in G.COLS:
                if rng.random() < 0.5:
                    base[c] = rng.choice(X.DOM[c] + ["unseen", None])
        base["unique_id"] = nid
        out.append(base)
    return out


def rule_matrices(rules, lrows, rrows):
    import duckdb
    con = duckdb.connect()
    for name, rs in (("tl", lrows), ("tr", rrows)):
        df = pd.DataFrame([{"idx": i, **{k: r.get(k) for k in ["unique_id"] + G.COLS}} for i, r in enumerate(rs)])
        for c in G.COLS:
            df[c] = df[c].astype("string")
        con.register(name + "0", df)
        con.execute(f"create table {name} as select idx, unique_id, " + ", ".join(f"cast({c} as varchar) as {c}" for c in G.COLS) + f" from {name}0")
    mats = []
    n, m = len(lrows), len(rrows)
    for rule in rules:
        res = {(a, b): v for a, b, v in con.execute(f"select l.idx, r.idx, ({rule}) from tl l cross join tr r").fetchall()}
        mats.append([2 if res[(i, j)] is None else int(bool(res[(i, j)])) for i in range(n) for j in range(m)])
    con.close()
    return mats


def run_entries(case, rng):
    """run every entry point; returns scored rows per entry and the inputs of the two set claims"""
    spec, rows, lookups = case["spec"], case["rows"], case["lookups"]
    byid = {r["unique_id"]: r for r in rows}
    lk = X.make_linker(case)
    pred = su.records(lk.inference.predict())
    predmap = {(int(r["unique_id_l"]), int(r["unique_id_r"])): r for r in pred}
    data_tf = {c: {r["unique_id"]: tf_for_value(spec, rows, lookups, c, r[c]) for r in rows} for c in spec["tf_cols"]}
    entries = []          # (entry name, left row, right row, tfv dict col -> (l, r), engine record, comparable_with_predict)

    def tfv_rows(rl, rr, left=None, right=None):
        out = {}
        for c in spec["tf_cols"]:
            a = left[c] if left is not None and c in left else tf_for_value(spec, rows, lookups, c, rl.get(c))
            b = right[c] if right is not None and c in right else tf_for_value(spec, rows, lookups, c, rr.get(c))
            out[c] = (a, b)
        return out

    for (i, j), r in predmap.items():
        entries.append(("predict", byid[i], byid[j], {c: (data_tf[c][i], data_tf[c][j]) for c in spec["tf_cols"]}, r, None))

    # ---- compare_two_records (warm linker: TF by registered table / select distinct) ----
    ids = [r["unique_id"] for r in rows]
    for _ in range(case["n_c2r"]):
        i, j = rng.sample(ids, 2)
        rl, rr = dict(byid[i]), dict(byid[j])
        variant = rng.choice(["plain", "plain", "unseen", "supplied"])
        sup_l = sup_r = None
        if variant == "unseen":
            c = rng.choice(G.COLS)
            rr[c] = rng.choice(["zed", None, "unseen"])
        if variant == "supplied" and spec["tf_cols"]:
            cs = [c for c in spec["tf_cols"] if rng.random() < 0.7] or spec["tf_cols"][:1]
            sup_l = {c: Fr(rng.choice(["1/2", "1/10", "3/100", "1/4", "9/10"])) for c in cs}
            sup_r = {c: Fr(rng.choice(["1/2", "1/10", "3/100", "1/4", "9/10"])) for c in cs}
        out = su.records(lk.inference.compare_two_records(one_row_frame(rl, sup_l), one_row_frame(rr, sup_r)))
        assert len(out) == 1, out
        same = variant == "plain"
        entries.append(("compare_two_records:" + variant, rl, rr, tfv_rows(rl, rr, sup_l, sup_r), out[0], (i, j) if same else None))

    # ---- compare_two_records on a cold linker: no cached concat table -> NULL tf unless registered ----
    if case["cold"]:
        lk2 = X.make_linker(case)
        i, j = rng.sample(ids, 2)
        rl, rr = byid[i], byid[j]
        out = su.records(lk2.inference.compare_two_records(one_row_frame(rl), one_row_frame(rr)))
        tfv = {c: ((tf_for_value(spec, rows, lookups, c, rl[c]), tf_for_value(spec, rows, lookups, c, rr[c]))
                   if c in lookups else (None, None)) for c in spec["tf_cols"]}
        entries.append(("compare_two_records:cold", rl, rr, tfv, out[0], None))

    # ---- realtime compare_records: the same model as a dictionary, TF values supplied ----
    from splink.internals.realtime import compare_records
    model = lk.misc.save_model_to_json()
    api = su.make_api(case["backend"])
    for _ in range(case["n_rt"]):
        i, j = rng.sample(ids, 2)
        tl = {c: data_tf[c][i] for c in spec["tf_cols"]}
        tr = {c: data_tf[c][j] for c in spec["tf_cols"]}
        out = su.records(compare_records(one_row_frame(byid[i], tl), one_row_frame(byid[j], tr), model, api,
                                         use_sql_from_cache=False))
        assert len(out) == 1, out
        entries.append(("realtime.compare_records", byid[i], byid[j], {c: (tl[c], tr[c]) for c in spec["tf_cols"]}, out[0], (i, j)))

    # ---- find_matches_to_new_records ----
    new_full = new_records(rng, rows)
    new = [{k: v for k, v in r.items() if k != "_copy_of"} for r in new_full]
    rules = case["fm_rules"]
    thr = case["fm_thr"]
    allout = su.records(lk.inference.find_matches_to_new_records(X.frame(new), blocking_rules=rules, match_weight_threshold=-1e6))
    if isinstance(thr, dict):
        fin = [r["match_weight"] for r in allout if r["match_weight"] is not None and not math.isinf(r["match_weight"])]
        thr = fin[thr["row"] % len(fin)] if fin else -4.0
    fmout = su.records(lk.inference.find_matches_to_new_records(X.frame(new), blocking_rules=rules, match_weight_threshold=thr))
    newidx = {r["unique_id"]: k for k, r in enumerate(new)}
    exidx = {r["unique_id"]: k for k, r in enumerate(rows)}
    for r in allout:
        rl, rr = byid[int(r["unique_id_l"])], new[newidx[int(r["unique_id_r"])]]
        # a new record that copies an existing record: comparable with predict on (existing, original)
        orig = new_full[newidx[int(r["unique_id_r"])]]["_copy_of"]
        key = None
        if orig is not None and orig != rl["unique_id"]:
            key = (min(orig, rl["unique_id"]), max(orig, rl["unique_id"]))
        entries.append(("find_matches_to_new_records", rl, rr, tfv_rows(rl, rr), r, key))
    fm = {"thr": thr, "rules": rules, "new": new,
          "impl": [(exidx[int(r["unique_id_l"])], newidx[int(r["unique_id_r"])]) for r in fmout],
          "mats": rule_matrices(rules, rows, new),
          "etf": [[data_tf[c][r["unique_id"]] for c in spec["tf_cols"]] for r in rows],
          "ntf": [[tf_for_value(spec, rows, lookups, c, r.get(c)) for c in spec["tf_cols"]] for r in new],
          "outc": X.outcomes_rows(case, lk, [(rl, rr) for rl in rows for rr in new])}

    # ---- missing within-cluster edges ----
    ncl = rng.choice([1, 2, 2, 3])
    cl = {r["unique_id"]: rng.randrange(ncl) for r in rows}
    keep_frac = rng.choice([0.0, 0.3, 0.6, 1.0])
    sub = [r for r in pred if rng.random() < keep_frac]
    dfc = lk.table_management.register_table(
        pd.DataFrame([{"cluster_id": cl[r["unique_id"]], "unique_id": r["unique_id"]} for r in rows]), "c10_clusters", overwrite=True)
    dfp = None
    if sub or rng.random() < 0.5:
        cols = list(pred[0].keys()) if pred else ["unique_id_l", "unique_id_r"]
        dfp = lk.table_management.register_table(pd.DataFrame(sub, columns=cols).astype({"unique_id_l": "int64", "unique_id_r": "int64"}),
                                                 "c10_pred", overwrite=True)
    me_thr = case["me_thr"]
    meout = su.records(lk.inference._score_missing_cluster_edges(dfc, dfp, threshold_match_weight=me_thr))
    for r in meout:
        i, j = int(r["unique_id_l"]), int(r["unique_id_r"])
        entries.append(("score_missing_cluster_edges", byid[i], byid[j], {c: (data_tf[c][i], data_tf[c][j]) for c in spec["tf_cols"]}, r, (i, j)))
    me = {"thr": me_thr, "clusters": [cl[r["unique_id"]] for r in rows], "ranks": [r["unique_id"] for r in rows],
          "preds": [(exidx[int(r["unique_id_l"])], exidx[int(r["unique_id_r"])]) for r in sub] if dfp is not None else [],
          "impl": [(exidx[int(r["unique_id_l"])], exidx[int(r["unique_id_r"])]) for r in meout],
          "tfs": fm["etf"],
          "outc": X.outcomes_rows(case, lk, [(rl, rr) for rl in rows for rr in rows])}
    # outcomes for the scored rows, in each entry point's own orientation
    ocs = X.outcomes_rows(case, lk, [(e[1], e[2]) for e in entries])
    return {"entries": entries, "outcomes": ocs, "predmap": predmap, "fm": fm, "me": me}


def scoring_term(case, res):
    spec = case["spec"]
    powtbl, pterms, infos = {}, [], []
    for e, oc in zip(res["entries"], res["outcomes"]):
        name, rl, rr, tfv, rec, cmp_key = e
        py = X.py_score(spec, oc, tfv)
        X.pow_rows(py, powtbl)
        t, bad = X.pair_term(spec, oc, tfv, rec)
        pterms.append(t)
        infos.append({"entry": name, "pair": (rl.get("unique_id"), rr.get("unique_id")), "py": py, "left": rl, "right": rr,
                      "tf": {c: [None if v is None else str(v) for v in tfv[c]] for c in tfv}, "rec": rec})
    term = (f"({coq_Q(Fr(spec['prior']))}, {G.cmps_term(spec)}, {X.powtbl_term(powtbl)}, (@None Q), (@None Q), false, "
            + coq_list(pterms, "ipair") + ")")
    return term, infos, powtbl


def _infos_term(outcs):
    return coq_list(["(mki " + coq_list([coq_list([f"{v}%nat" for v in lv], "nat") for lv in oc], "(list nat)") + ")" for oc in outcs], "pinfo")


def _tf_table(tab):
    return coq_list([coq_list([X.oq(v) for v in row], "(option Q)") for row in tab], "(list (option Q))")


def set_powtbl(spec, outcs, tfl_of, tfr_of, n, m, powtbl):
    for i in range(n):
        for j in range(m):
            tfv = {c: (tfl_of(i)[k], tfr_of(j)[k]) for k, c in enumerate(spec["tf_cols"])}
            X.pow_rows(X.py_score(spec, outcs[i * m + j], tfv), powtbl)


def fm_term(case, res):
    spec, fm = case["spec"], res["fm"]
    n, m = len(case["rows"]), len(fm["new"])
    powtbl = {}
    set_powtbl(spec, fm["outc"], lambda i: fm["etf"][i], lambda j: fm["ntf"][j], n, m, powtbl)
    t = Fr(2.0 ** fm["thr"])
    return (f"({coq_Q(Fr(spec['prior']))}, {G.cmps_term(spec)}, {X.powtbl_term(powtbl)}, {coq_Q(t)}, {coq_bool(bool(case.get('exact_thr')))}, "
            f"{n}%nat, {m}%nat, {coq_list([coq_list([f'{v}%nat' for v in mt], 'nat') for mt in fm['mats']], '(list nat)')}, "
            f"{_infos_term(fm['outc'])}, {_tf_table(fm['etf'])}, {_tf_table(fm['ntf'])}, "
            + coq_list([f"({a}%nat, {b}%nat)" for a, b in fm["impl"]], "(nat * nat)") + ")")


def me_term(case, res):
    spec, me = case["spec"], res["me"]
    n = len(case["rows"])
    powtbl = {}
    set_powtbl(spec, me["outc"], lambda i: me["tfs"][i], lambda j: me["tfs"][j], n, n, powtbl)
    T = None if me["thr"] is None else Fr(2.0 ** me["thr"])
    return (f"({coq_Q(Fr(spec['prior']))}, {G.cmps_term(spec)}, {X.powtbl_term(powtbl)}, {X.oq(T)}, {n}%nat, "
            f"{coq_list([f'{v}%nat' for v in me['ranks']], 'nat')}, "
            f"{coq_list(['(Some ' + coq_Z(v) + ')' for v in me['clusters']], '(option Z)')}, "
            f"{coq_list([f'({a}%nat, {b}%nat)' for a, b in me['preds']], '(nat * nat)')}, "
            f"{_infos_term(me['outc'])}, {_tf_table(me['tfs'])}, "
            + coq_list([f"({a}%nat, {b}%nat)" for a, b in me["impl"]], "(nat * nat)") + ")")


# ---------------------------------------------------------------------------------------------
# Python transcriptions of the two set claims (to describe failures)
# ---------------------------------------------------------------------------------------------
def py_fm_expected(case, res):
    spec, fm = case["spec"], res["fm"]
    n, m = len(case["rows"]), len(fm["new"])
    t = Fr(2.0 ** fm["thr"])
    out, near = [], []
    for i in range(n):
        for j in range(m):
            adm = (not fm["mats"]) or any(mt[i * m + j] == 1 for mt in fm["mats"])
            if not adm:
                continue
            tfv = {c: (fm["etf"][i][k], fm["ntf"][j][k]) for k, c in enumerate(spec["tf_cols"])}
            py = X.py_score(spec, fm["outc"][i * m + j], tfv)
            if py is None:
                continue
            s = py["score"]
            if s != "inf" and abs(s - t) <= Fr(1, 10 ** 9) * t:
                near.append((i, j))
            if s == "inf" or s > t:
                out.append((i, j))
    return sorted(out), sorted(near)


def py_me_expected(case, res):
    spec, me = case["spec"], res["me"]
    n = len(case["rows"])
    T = None if me["thr"] is None else Fr(2.0 ** me["thr"])
    out, near = [], []
    for i in range(n):
        for j in range(n):
            if not (me["ranks"][i] < me["ranks"][j]) or me["clusters"][i] != me["clusters"][j] or (i, j) in me["preds"]:
                continue
            tfv = {c: (me["tfs"][i][k], me["tfs"][j][k]) for k, c in enumerate(spec["tf_cols"])}
            py = X.py_score(spec, me["outc"][i * n + j], tfv)
            if py is None:
                if T is None:
                    out.append((i, j))
                continue
            s = py["score"]
            if T is not None and s != "inf" and abs(s - T) <= Fr(1, 10 ** 9) * T:
                near.append((i, j))
            if T is None or s == "inf" or s >= T:
                out.append((i, j))
    return sorted(out), sorted(near)
