"""Entry point: python -m harness.run Cxx [--tier quick|thorough] [--replay f]"""
import argparse
import importlib
import os
import sys
import traceback

from harness.common import Ctx


def main():
    ap = argparse.ArgumentParser()
    ap.add_argument("pid")
    ap.add_argument("--tier", default=os.environ.get("VERIF_TIER", "quick"), choices=["quick", "thorough"])
    ap.add_argument("--replay", default=None)
    a = ap.parse_args()
    seed = int(os.environ.get("VERIF_SEED", "0") or 0)
    ctx = Ctx(a.pid, a.tier, seed, a.replay)
    mod = importlib.import_module(f"harness.{a.pid.lower()}")
    try:
        mod.run(ctx)
    except Exception:
        tb = traceback.format_exc()
        ctx.log("check crashed:\n" + tb)
        # a crash of the machinery on the code under test means the property is no longer
        # shown to hold: report it, naming the crash as the broken correspondence
        ctx.violation("check machinery raised (correspondence could not be completed)",
                      {"traceback": tb}, {"crash": True}, found_input=False)
    sys.exit(ctx.finish())


if __name__ == "__main__":
    main()
