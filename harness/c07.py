"""C07  Results never depend on what ran before (cache soundness).

 P  Properties/C07.v: invariant proofs over `fold_left step ops s0` of the cache state machine
    Model/Cache.v (any history length, any injective hash): hashed entries are sound, predict
    after any guarded history equals predict of a fresh linker, invalidate_cache reflects new
    data, realtime SQL cache transparency; one `_refuted` theorem per finding class.
 T  probes decide which repaired variant (7.7 / 7.8 / 7.16) the tree implements; the model runs
    with those booleans.
 X  seeded and exhaustive histories of public operations of one real Linker (DuckDB, SQLite):
    executed templated names, cache hits and the cache content after every operation are compared
    with the model evaluated inside Coq; at the end predict() is compared row by row with a fresh
    Linker built from the saved model (property oracle).  Realtime compare_records: sequences of
    calls over several settings, both flags, both cache modes.
"""
from __future__ import annotations

import itertools
import json

import pandas as pd

from harness import c07_x as X
from harness import splink_util as su
from harness.common import Ctx, REPO, coq_bool, coq_list, coq_nat, git_blob

ALPHABET = [("predict",), ("detlink",), ("est_u", 1), ("em", 0), ("prior", 0), ("ctf", "first_name"),
            ("rtf", "first_name", 1), ("fm",), ("c2", False), ("cluster", 0), ("inv",), ("acc_col",), ("m_col",)]


# ----------------------------------------------------------------------------------------- probes
def probe_fixes(ctx: Ctx) -> dict:
    """T: which variant of the code does the tree implement?  (behavioural probes)"""
    w = X.World("duckdb")
    w.apply(("predict",))
    w.apply(("rtf", "first_name", 1))
    fx77 = "__splink__df_concat_with_tf" not in w.cache
    w.close()
    w = X.World("duckdb")
    w.apply(("est_u", 1))
    w.reset_trackers()
    w.apply(("est_u", 1))
    _, hits, _ = w.observe()
    fx716 = not any(t == "__splink__blocked_id_pairs" for t, _ in hits)
    w.close()
    fx78 = realtime_flag_probe()
    # 7.17: compute_graph_metrics twice must not raise and must track its bridges table
    w = X.World("duckdb")
    _, r1 = w.apply(("metrics", 0))
    _, r2 = w.apply(("metrics", 0))
    fx717 = r1 is None and r2 is None and any(k.startswith("__splink__bridges_") for k in w.cache.data)
    w.close()
    # 7.18: overwrite=True over an existing lookup must drop the derived tables
    w = X.World("duckdb")
    w.apply(("rtf", "first_name", 1))
    w.apply(("predict",))
    w.apply(("rtf_ow", "first_name", 2))
    fx718 = not any(k.startswith("__splink__df_predict_") for k in w.cache.data)
    w.close()
    # blocking analysis answers from the table cache (before 16fdbf82) or always executes
    w = X.World("duckdb")
    w.apply(("ba_cum",))
    w.apply(("ba_nl", 0))
    w.reset_trackers()
    w.apply(("ba_cum",))
    w.apply(("ba_nl", 0))
    _, hits, _ = w.observe()
    fxba = not any(t in ("__splink__df_count", "__splink__df_count_cumulative_blocks", "__splink__block_counts") for t, _ in hits)
    w.close()
    w = X.World("duckdb")
    w.apply(("complete",))
    w.reset_trackers()
    w.apply(("complete",))
    _, hits, _ = w.observe()
    fxco = not any(t == "__splink__df_all_column_completeness_renames" for t, _ in hits)
    w.close()
    return {"fx77": fx77, "fx716": fx716, "fx78": fx78, "fx717": fx717, "fx718": fx718, "fxba": fxba, "fxco": fxco,
            "graph_metrics_errors": [r1, r2]}


# ----------------------------------------------------------------------------------------- histories
def gen_history(ctx: Ctx, n: int, fixes: dict) -> list[tuple]:
    """Op kinds are drawn here; state-dependent choices (avoidance of finding class (a)) are made
    while running, see run_history."""
    rng = ctx.rng
    hist = []
    for _ in range(n):
        k = rng.choices(
            ["predict", "detlink", "est_u", "em", "prior", "ctf", "rtf", "fm", "c2", "cluster", "inv", "chg",
             "acc_col", "err_col", "acc_tab", "err_tab", "m_col", "m_pair", "unlink", "profile", "complete", "ba_count",
             "ba_cum", "ba_nl", "multi", "metrics", "sbl", "fm_fail", "c2_fail"],
            [5, 2, 2, 2, 2, 3, 3, 2, 2, 2, 2, 2,
             3, 2, 2, 2, 2, 2, 1, 1, 1, 1, 1, 1, 1, 2 if fixes.get("fx717") else 0, 2, 3, 2])[0]
        if k == "est_u":
            hist.append((k, rng.choice([0, 1, 2])))
        elif k in ("em", "prior", "cluster", "ba_count", "ba_nl", "metrics", "sbl", "fm_fail"):
            hist.append((k, rng.choice([0, 1])))
        elif k == "ctf":
            hist.append((k, rng.choice(X.TF_COLS)))
        elif k == "rtf":
            c = rng.choice(X.TF_COLS)
            hist.append((k, c, rng.randint(1, 3)))
            if rng.random() < 0.5:      # a lookup for every tf column: compare_two_records becomes comparable with a fresh linker
                hist.append((k, [x for x in X.TF_COLS if x != c][0], rng.randint(1, 3)))
                hist.append((rng.choice(["predict", "cluster", "em", "fm"]), 0) if rng.random() < 0.7 else ("c2", True))
        elif k == "c2":
            hist.append((k, rng.choice([False, True])))
        else:
            hist.append((k,))
    return [((o[0],) if o[0] in ("predict", "fm") and len(o) == 2 else o) for o in hist]


def run_history(ctx: Ctx, backend: str, hist: list[tuple], fixes: dict, avoid_findings: bool = True, probe_op=None,
                link: bool = False):
    """Runs the history on a real linker.  Returns dict with the Coq case and the oracle result."""
    w = X.World(backend, link=link)
    init = X.coq_init(w.tables, w.version, w.tfcols, w.params, fixes)
    steps, done, raised = [], [], None
    routes, tf_problems = [], []
    failing, res_extra = [], {}
    for op in hist:
        if avoid_findings and op[0] == "rtf" and not fixes["fx77"] and "__splink__df_concat_with_tf" in w.cache \
                and op[1] not in w.registered:
            # finding class (a) (DESIGN 7.7) is exercised by its own witness replay
            op = ("inv",)
        if op[0] == "sbl" and not link:
            op = ("cluster", op[1])  # single best links needs source datasets (link world)
        if link and op[0] in ("multi", "metrics"):
            op = ("sbl", 0)        # these take a single node table / id column here: dedupe world only
        if op[0] in X.World.FAILING:
            # a call built to FAIL; not a step of the model's trace: with __splink__df_concat_with_tf cached it executes and
            # caches nothing (checked), and it must leave saved model, blocking rules, link type and retain flags alone.
            # On a linker without the cached concat it is exercised by failing_calls() instead.
            if "__splink__df_concat_with_tf" not in w.cache:
                continue
            snap, listing = w.settings_snapshot(), w.observe()[2]
            w.reset_trackers()
            err = w.fail(op)
            ex, _, listing2 = w.observe()
            after = w.settings_snapshot()
            changed = sorted(k for k in snap if snap[k] != after[k])
            failing.append({"op": op, "position": len(done), "raised": err, "changed": changed,
                            "before": {k: snap[k] for k in changed if k != "saved_model"},
                            "after": {k: after[k] for k in changed if k != "saved_model"},
                            "executed": ex, "cache_changed": listing != listing2})
            if changed and "saved_before" not in res_extra:
                res_extra["saved_before"] = snap["saved_model"]
            done.append(op)
            continue
        w.reset_trackers()
        term, raised = w.apply(op)
        if raised:
            done.append(op)
            break
        if op[0] in ("c2", "fm"):
            routes.append((len(steps) + (1 if op[0] == "fm" else 0), list(w.last_routes)))
            if w.tf_problem is not None:
                tf_problems.append({"step": len(steps), "op": op, **w.tf_problem})
        steps.append((term, w.observe()))
        done.append(op)
    res = {"backend": backend, "history": done, "raised": raised, "init": init, "steps": steps, "link": link,
           "routes": routes, "tf_problems": tf_problems, "failing": failing}
    if probe_op is not None:
        if probe_op[0] == "sbl" and not link:
            probe_op = ("cluster", 0)
        if link and probe_op[0] == "multi":
            probe_op = ("sbl", 0)
        if probe_op[0] in ("c2", "fm") and not set(w.tfcols) <= set(w.registered):
            # compare_two_records / find_matches depend BY DESIGN on whether concat_with_tf is cached for tf columns without
            # a cached tf table (documented, warned); with a lookup registered for every tf column they must equal the
            # fresh linker's whatever ran before
            probe_op = ("predict",)
    a = None
    if raised is None:
        try:
            a = w.predict_rows()
        except Exception as e:  # noqa: BLE001
            raised = res["raised"] = f"predict() after the history: {type(e).__name__}: {e}"[-600:]
    if raised is None:
        f = w.fresh()
        try:
            b = f.predict_rows()
            res["diff"] = X.rows_diff(a, b)
        except Exception as e:  # noqa: BLE001
            res["diff"] = {"why": "the fresh linker built from the saved model raised in predict()", "error": f"{type(e).__name__}: {e}"[-400:]}
        res["n_rows"] = len(a)
        if res["diff"] is None and probe_op is not None:
            # a second table-returning operation: its output must be that of the fresh linker too
            try:
                d2 = X.table_diff(w.output_rows(probe_op), f.output_rows(probe_op))
            except Exception as e:  # noqa: BLE001
                d2 = {"why": "raised", "error": f"{type(e).__name__}: {e}"[:400]}
            if d2 is not None:
                res["diff"] = {"operation": probe_op, **d2}
            res["probe_op"] = probe_op
        f.close()
        if "saved_before" in res_extra and a is not None:
            # a failing call changed the settings: what that does to predict(), against a fresh linker built from the model
            # saved BEFORE that call (only meaningful when no later operation changes the model; reported as illustration)
            fb = w.fresh(settings=res_extra["saved_before"])
            res["predict_vs_fresh_from_model_saved_before_the_failing_call"] = X.rows_diff(a, fb.predict_rows())
            fb.close()
    w.close()
    return res


def classify(hist: list[tuple]) -> dict:
    kinds = [o[0] for o in hist]
    feats = {"length": len(hist)}
    seen_cwtf = False
    for o in hist:
        if o[0] in ("predict", "detlink", "em", "fm", "cluster"):
            seen_cwtf = True
        if o[0] in ("inv", "chg"):
            seen_cwtf = False
        if o[0] == "rtf" and seen_cwtf:
            feats["history_class"] = "predict_registerTF_predict"
    if "chg_bare" in kinds:
        feats["history_class"] = "input_change_without_invalidate"
    return feats


def shrink(ctx: Ctx, backend: str, hist: list[tuple], fixes: dict, bad, probe_op=None, link=False) -> list[tuple]:
    """Greedy removal of operations while `bad(result)` stays true."""
    cur = list(hist)
    changed = True
    budget = 40
    while changed and budget > 0:
        changed = False
        for i in range(len(cur)):
            cand = cur[:i] + cur[i + 1:]
            budget -= 1
            try:
                r = run_history(ctx, backend, cand, fixes, avoid_findings=False, probe_op=probe_op, link=link)
            except Exception:  # noqa: BLE001
                continue
            if bad(r):
                cur = cand
                changed = True
                break
            if budget <= 0:
                break
    return cur


def evaluate(ctx: Ctx, name: str, results: list[dict], guard: bool = True):
    """Coq side: model trace == observed trace for every step, model guard, model oracle."""
    terms = []
    for r in results:
        equal = r.get("diff") is None
        terms.append(X.coq_case(r["init"], r["steps"], guard if "guard" not in r else r["guard"], equal))
    bad, errs = ctx.eval_cases(name, X.HEADER, terms, "run_case", shard=40)
    return bad, errs, terms


def diagnose(ctx: Ctx, r: dict) -> str:
    """Which step / which component disagrees, with the model's expectation (raw Coq output)."""
    st = coq_list([f"({t}, {X.coq_obs(*o)})" for t, o in r["steps"]], "(op * obs)")
    txt = X.HEADER + f"\nEval vm_compute in (first_bad 0 {r['init']} {st}).\n" + \
        f"Eval vm_compute in (hist_ok K keqb hash {r['init']} (map fst {st})).\n" + \
        f"Eval vm_compute in (let s := run K keqb hash {r['init']} (map fst {st}) in " \
        f"(predict_prov s, predict_prov (fresh_of K keqb s 777 888))).\n"
    ok, out = ctx.coqc_text("C07_diag", txt)
    return out[-6000:]


def history_stage(ctx: Ctx, fixes: dict):
    results = []
    # seeded random histories
    n_duck, n_sqlite = (12, 4) if ctx.quick else (120, 40)
    maxlen = 12 if ctx.quick else 25
    for backend, n in (("duckdb", n_duck), ("sqlite", n_sqlite)):
        for _ in range(n):
            hist = gen_history(ctx, ctx.rng.randint(3, maxlen), fixes)
            r = run_history(ctx, backend, hist, fixes, probe_op=ctx.rng.choice(X.TABLE_OPS), link=ctx.rng.random() < 0.3)
            r["kind"] = "random"
            ctx.hist("world", "link_and_dedupe, 2 tables" if r["link"] else "dedupe_only")
            ctx.hist("probe_op", r.get("probe_op", ("none",))[0])
            results.append(r)
    # exhaustive short histories over the alphabet
    depth = 2 if ctx.quick else 3
    for d in range(1, depth + 1):
        for hist in itertools.product(ALPHABET if d < 3 else ALPHABET[:11], repeat=d):    # length 3: the 11 first-wave letters
            if ctx.quick and d == 2 and ctx.rng.random() < 0.55:
                # quick tier: a seeded 45% sample of the 169 pairs (all of them in the thorough tier)
                continue
            r = run_history(ctx, "duckdb", list(hist), fixes, probe_op=ctx.rng.choice(X.TABLE_OPS) if d == 1 else None)
            r["kind"] = f"exhaustive{d}"
            results.append(r)
    ctx.log(f"histories run: {len(results)}")
    for r in results:
        hist = r["history"]
        nontrivial = len({o[0] for o in hist}) >= 2 and any(len(st[1][1]) > 0 for st in r["steps"])
        ctx.count_case((r["backend"], tuple(hist)), nontrivial,
                       {"backend": r["backend"], "history": hist, "equal_to_fresh": r.get("diff") is None})
        ctx.hist("history_length", len(hist))
        ctx.hist("backend", r["backend"])
        ctx.hist("kind", r["kind"])
        for o in hist:
            ctx.hist("op", o[0])
    # 1. operations must not raise
    for r in results:
        if r["raised"]:
            ctx.violation("a public operation raised inside a valid history",
                          {"case": r["history"], "backend": r["backend"], "link": r["link"], "implementation": r["raised"],
                           "specification": "no exception"},
                          {"raised": True, **classify(r["history"])})
    ok_results = [r for r in results if not r["raised"]]
    # 2. property oracle on the implementation alone
    for r in ok_results:
        if r["diff"] is not None:
            small = shrink(ctx, r["backend"], r["history"], fixes, lambda q: q.get("raised") is None and q.get("diff") is not None,
                           probe_op=r.get("probe_op"), link=r["link"])
            ctx.violation("predict() (or the table returned by the probe operation) after the history differs from that of a fresh "
                          "linker built from the saved model",
                          {"case": small, "original_history": r["history"], "backend": r["backend"], "probe_op": r.get("probe_op"),
                           "link": r["link"],
                           "implementation": r["diff"], "specification": "row-by-row equal (tol 1e-9)"},
                          classify(small))
    ctx.obligation("oracle: predict() equals fresh linker on every generated history",
                   all(r["diff"] is None for r in ok_results))
    # 2a. calls built to fail: they raise, execute and cache nothing, and leave the settings as they were
    n_fail = 0
    for r in results:
        for fc in r["failing"]:
            ctx.hist("failing_call", fc["op"][0])
            pb = (["did not raise"] if fc["raised"] is None else []) + [f"changed {c}" for c in fc["changed"]] + \
                 (["executed " + ", ".join(fc["executed"])] if fc["executed"] else []) + (["cache content changed"] if fc["cache_changed"] else [])
            if not pb:
                continue
            n_fail += 1
            if n_fail > 2:
                continue
            ctx.violation("a failing find_matches_to_new_records / compare_two_records call did not leave the linker as it was: " + "; ".join(pb),
                          {"case": r["history"][:fc["position"] + 1], "original_history": r["history"], "backend": r["backend"],
                           "link": r["link"], "implementation": {k: fc[k] for k in ("raised", "changed", "before", "after", "executed")},
                           "predict_vs_fresh_linker_from_the_model_saved_before": r.get("predict_vs_fresh_from_model_saved_before_the_failing_call"),
                           "specification": "the call raises and the saved model, blocking rules, link type and retain flags are "
                                            "those before the call, so predict() equals a fresh linker built from the model saved before it"},
                          {"scenario": "failing_call_changes_settings", "op": fc["op"][0], "changed": fc["changed"]})
    ctx.obligation("failing calls inside histories raise, execute/cache nothing and leave saved model, blocking rules, link type and "
                   "retain flags unchanged", n_fail == 0)
    # 2b. term frequencies of new records follow the route cached tf table > select distinct from cached concat_with_tf > NULL
    n_tf = 0
    for r in ok_results:
        for pb in r["tf_problems"][:1]:
            n_tf += 1
            if n_tf > 2:
                continue
            small = shrink(ctx, r["backend"], r["history"][:pb["step"] + 1], fixes,
                           lambda q: q.get("raised") is None and bool(q.get("tf_problems")), link=r["link"])
            ctx.violation("compare_two_records / find_matches_to_new_records: the term frequency of a new record's value is not the "
                          "one the cached tf table (registered lookup) prescribes - it depends on whether __splink__df_concat_with_tf "
                          "was cached by earlier operations",
                          {"case": small, "original_history": r["history"], "backend": r["backend"], "link": r["link"],
                           "implementation": pb, "specification": "cached tf table first, else select distinct from the cached "
                                                                  "concat_with_tf, else NULL (EntryPoints.route_priority)"},
                          {"tf_route": True, **classify(small)})
    ctx.cov["tf_route_checks"] = sum(len(r["routes"]) for r in ok_results)
    ctx.obligation("oracle: tf values of new records follow the route priority (recomputed from the real tables)", n_tf == 0)
    rterms = []
    for r in ok_results:
        if r["routes"]:
            ops = coq_list([t for t, _ in r["steps"]], "op")
            ob = coq_list([f"({coq_nat(k)}, {coq_list([coq_nat(x) for x in ks], 'nat')})" for k, ks in r["routes"]], "(nat * list nat)")
            rterms.append(f"({r['init']}, {ops}, {ob})")
    rbad, rerrs = ctx.eval_cases("C07_routes", X.HEADER, rterms, "routes_ok", shard=60)
    ctx.obligation("correspondence: the tf route taken (which real table is read) equals EntryPoints.route_priority on the model state",
                   not rbad and not rerrs, "; ".join(rerrs)[:800])
    if rbad or rerrs:
        ctx.violation("tf route of the implementation differs from the model's", {"broken": "C07_routes", "errors": rerrs[:2],
                                                                                 "cases": rbad[:5]}, found_input=False)
    # 3. model correspondence in Coq
    bad, errs, _ = evaluate(ctx, "C07_x", ok_results)
    ctx.obligation("correspondence: executed names, cache hits and cache content equal the model's at every step; "
                   "model guard true; model oracle agrees", not bad and not errs, "; ".join(errs)[:1500])
    for i in bad[:3]:
        r = ok_results[i]
        small = shrink(ctx, r["backend"], r["history"], fixes,
                       lambda q: q.get("raised") is None and bool(evaluate(ctx, "C07_shrink", [q])[0]), link=r["link"])
        rs = run_history(ctx, r["backend"], small, fixes, avoid_findings=False, link=r["link"])
        ctx.violation("cache decisions of the implementation differ from the model (executed names / cache hits / cache "
                      "content after an operation, or the model's predict-vs-fresh verdict)",
                      {"case": small, "original_history": r["history"], "backend": r["backend"], "link": r["link"],
                       "implementation": [(t, o) for t, o in rs["steps"]], "implementation_oracle_diff": rs.get("diff"),
                       "specification": diagnose(ctx, rs)},
                      {"model_mismatch": True, **classify(small)})
    if errs and not bad:
        ctx.violation("model evaluation failed", {"broken": "C07_x case evaluation", "errors": errs[:3]}, found_input=False)
    return results


# ----------------------------------------------------------------------------------------- witnesses
def witness_stage(ctx: Ctx, fixes: dict):
    # (a) DESIGN 7.7
    r = run_history(ctx, "duckdb", [("predict",), ("rtf", "first_name", 1), ("predict",)], fixes, avoid_findings=False)
    differs = r["diff"] is not None
    r["guard"] = bool(fixes["fx77"])
    bad, errs, _ = evaluate(ctx, "C07_wa", [r])
    ctx.obligation("witness (a): model verdict (guard and predict-vs-fresh) equals the implementation's", not bad and not errs,
                   "; ".join(errs)[:800])
    ctx.cov["witness_a_differs"] = differs
    if differs:
        ctx.violation("predict(); register_term_frequency_lookup(); predict() differs from a fresh linker with the lookup "
                      "registered (stale named __splink__df_concat_with_tf)",
                      {"case": r["history"], "backend": "duckdb", "implementation": r["diff"],
                       "specification": "equal to fresh linker"},
                      {"history_class": "predict_registerTF_predict"})
    ctx.expect_known("KF-C07-stale-concat-with-tf", differs, "register_term_frequency_lookup now evicts concat_with_tf")
    if bad:
        ctx.violation("model and implementation disagree on witness (a)",
                      {"case": r["history"], "specification": diagnose(ctx, r), "implementation": r["steps"]},
                      {"model_mismatch": True, "history_class": "predict_registerTF_predict"})
    # (b) two linkers sharing one DatabaseAPI (listed as known in the property text)
    two_linkers(ctx, fixes)
    # (b') calls that fail must leave the linker as it was (also on a linker that has cached nothing yet)
    failing_calls(ctx)
    # (d) 7.16 estimate_u unseeded twice
    estimate_u_twice(ctx)
    # (e) 7.17 compute_graph_metrics twice on one linker
    if not fixes["fx717"]:
        ctx.violation("compute_graph_metrics called twice with the same inputs on one linker raises (or leaves an untracked "
                      "__splink__bridges_<hash> table): the second call depends on the first",
                      {"case": [("metrics", 0), ("metrics", 0)], "backend": "duckdb", "implementation": fixes["graph_metrics_errors"],
                       "specification": "the second call returns what a fresh linker returns"},
                      {"history_class": "compute_graph_metrics_twice"})
    ctx.expect_known("KF-C07-graph-metrics-twice", not fixes["fx717"], "compute_graph_metrics can be repeated")
    # (f) 7.18 register_term_frequency_lookup(overwrite=True) with different rows, then predict
    r = run_history(ctx, "duckdb", [("rtf", "first_name", 1), ("predict",), ("rtf_ow", "first_name", 2), ("predict",)], fixes,
                    avoid_findings=False)
    stale = r["diff"] is not None
    r["guard"] = False
    bad, errs, _ = evaluate(ctx, "C07_wf", [r])
    ctx.obligation("witness 7.18: model (variant chosen by the probe) and implementation agree on trace and verdict",
                   not bad and not errs and stale == (not fixes["fx718"]), "; ".join(errs)[:600])
    if stale:
        ctx.violation("register_term_frequency_lookup(..., overwrite=True) with different rows leaves the next predict() stale: the lookup "
                      "keeps its physical name, so the old __splink__df_predict_<hash> is served from the cache",
                      {"case": r["history"], "backend": "duckdb", "implementation": r["diff"], "specification": "equal to a fresh linker "
                       "with the new lookup registered"}, {"history_class": "registerTF_overwrite_predict"})
    ctx.expect_known("KF-C07-lookup-overwrite-stale", stale, "overwriting a lookup drops the derived tables")
    # a NEW DatabaseAPI on a database that still holds another API's tables (persistent database reopened
    # after the input rows changed): the uid in the hash must keep the old tables from being found
    new_api_same_database(ctx)
    # bare input change (not a finding: the property requires invalidate_cache) - model verdict only
    r = run_history(ctx, "duckdb", [("predict",), ("chg_bare",), ("predict",)], fixes, avoid_findings=False)
    r["guard"] = False
    bad, errs, _ = evaluate(ctx, "C07_wc", [r])
    ctx.obligation("input change without invalidate_cache: model predicts the stale result the implementation returns",
                   not bad and not errs and r["diff"] is not None, "; ".join(errs)[:800])
    # the DB-existence fallback returns stale rows once a cleanup leaves a result table behind (model variant
    # InvalidateKeepingResults, theorem C07_invalidate_reflects_new_data_refuted_when_results_are_retained): the mechanism
    # is replayed on the real code by forgetting the cache entries of df_predict before the real invalidate_cache
    retained_results_mechanism(ctx, fixes)
    # find_matches_to_new_records with the records given by TABLE NAME, the table refilled between searches: the final
    # pipeline must not be served from the cache (use_cache=False); trace vs model and output vs fresh linker
    for backend in ("duckdb", "sqlite"):
        hist = [("predict",), ("fm_tab", 1), ("fm_tab", 2), ("fm_tab", 2), ("fm_tab", 3)]
        r = run_history(ctx, backend, hist, fixes, avoid_findings=False, probe_op=("fm_tab", 3))
        r["guard"] = False          # replacing rows of a table Splink reads without invalidate_cache is outside hist_ok
        bad, errs, _ = evaluate(ctx, "C07_wt", [r]) if not r["raised"] else ([0], [])
        ctx.count_case(("fm_tab", backend), True, {"scenario": "find_matches_by_table_name_refilled", "backend": backend})
        okk = r["raised"] is None and r["diff"] is None and not bad and not errs
        ctx.obligation(f"find_matches_to_new_records by table name, table refilled between searches ({backend})", okk, "; ".join(errs)[:500])
        if not okk:
            ctx.violation("find_matches_to_new_records(<table name>) after the table was refilled returns the result of an earlier search "
                          "(or its cache decisions differ from the model)",
                          {"case": hist, "backend": backend, "probe_op": ("fm_tab", 3), "implementation": r.get("diff") or r["raised"] or r["steps"],
                           "specification": diagnose(ctx, r) if bad and not r["raised"] else "equal to a fresh linker searching the same table"},
                          {"history_class": "find_matches_by_table_name_refilled"})
    # invalidate_cache reflects new data
    r = run_history(ctx, "duckdb", [("predict",), ("chg",), ("predict",)], fixes)
    ctx.obligation("invalidate_cache reflects changed input data (oracle)", r["diff"] is None and r["raised"] is None)


def retained_results_mechanism(ctx: Ctx, fixes: dict):
    for backend in ("duckdb", "sqlite"):
        w = X.World(backend)
        init = X.coq_init(w.table, w.version, w.tfcols, w.params, fixes)
        steps = []
        for op in (("predict",), ("chg_bare",)):
            w.reset_trackers()
            term, _ = w.apply(op)
            steps.append((term, w.observe()))
        for k in [k for k in w.cache.data if k.startswith("__splink__df_predict_")]:
            del w.cache.data[k]
        w.reset_trackers()
        w.linker.table_management.invalidate_cache()
        steps.append(("InvalidateKeepingResults", w.observe()))
        w.reset_trackers()
        term, raised = w.apply(("predict",))
        steps.append((term, w.observe()))
        a = w.predict_rows()
        f = w.fresh()
        d = X.rows_diff(a, f.predict_rows())
        f.close()
        w.close()
        r = {"init": init, "steps": steps, "guard": False, "diff": d}
        bad, errs, _ = evaluate(ctx, "C07_wr", [r])
        ctx.count_case(("retained_results", backend), True, {"scenario": "retained_result_table", "backend": backend, "stale": d is not None})
        ctx.obligation(f"retained result table + unchanged _cache_uid: the implementation serves the stale table through the "
                       f"DB-existence fallback exactly as the model variant predicts ({backend})",
                       raised is None and d is not None and not bad and not errs, "; ".join(errs)[:600])


def failing_calls(ctx: Ctx):
    """find_matches_to_new_records / compare_two_records built to raise, on a new linker and after predict / EM: afterwards
    the settings are those before the call and predict() equals a fresh linker built from the model saved BEFORE the call
    (the model saved after it would carry the damage too)."""
    n_bad = 0
    for backend in ("duckdb", "sqlite"):
        for pre in ([], [("predict",)]) if ctx.quick else ([], [("predict",)], [("em", 0)], [("detlink",), ("cluster", 0)]):
            for op in (("fm_fail", 0), ("fm_fail", 1), ("c2_fail",)):
                w = X.World(backend)
                for o in pre:
                    w.apply(o)
                snap = w.settings_snapshot()
                err = w.fail(op)
                after = w.settings_snapshot()
                changed = sorted(k for k in snap if snap[k] != after[k])
                f = w.fresh(settings=snap["saved_model"])
                try:
                    d = X.rows_diff(w.predict_rows(), f.predict_rows())
                except Exception as e:  # noqa: BLE001
                    d = {"why": "predict() raised after the failing call", "error": f"{type(e).__name__}: {e}"[-300:]}
                f.close()
                w.close()
                ctx.count_case(("failing_call", backend, tuple(pre), op), True,
                               {"scenario": "failing_call", "backend": backend, "before": [o[0] for o in pre], "op": op[0]})
                ctx.hist("failing_call", op[0])
                if err is not None and not changed and d is None:
                    continue
                n_bad += 1
                if n_bad > 2:
                    continue
                ctx.violation("after a failing find_matches_to_new_records / compare_two_records call the linker is not what it was"
                              + ("" if d is None else ": predict() differs from a fresh linker built from the model saved before the call"),
                              {"case": list(pre) + [op, ("predict",)], "backend": backend,
                               "implementation": {"raised": err, "changed": changed,
                                                  "before": {k: snap[k] for k in changed if k != "saved_model"},
                                                  "after": {k: after[k] for k in changed if k != "saved_model"},
                                                  "predict_vs_fresh": d},
                               "specification": "the call raises; saved model, blocking rules, link type and retain flags are unchanged; "
                                                "predict() equals a fresh linker built from the model saved before the call"},
                              {"scenario": "failing_call_changes_settings", "op": op[0], "changed": changed})
    ctx.obligation("failing calls (new record lacking the blocking column, blocking rule on a column that does not exist, record "
                   "lacking a compared column) raise and leave settings and predict() as before, on new and used linkers", n_bad == 0)


def two_linkers(ctx: Ctx, fixes: dict):
    wa = X.World("duckdb", version=0, table="inp")
    wa.apply(("predict",))
    # second linker on the same DatabaseAPI over a different input table
    wb = X.World("duckdb", version=2, table="inp_b", api=wa.api, offset=100)
    a = su.records(wb.linker.inference.predict())
    f = X.World("duckdb", version=2, table="inp_b", offset=100, settings=wb.model_json())
    b = su.records(f.linker.inference.predict())
    diff = X.rows_diff(a, b)
    f.close()
    # what the model's shared entry predicts B returns: the predictions over A's input (B reads A's cached
    # __splink__df_concat_with_tf), not anything else.  Any other difference is a different defect.
    g = X.World("duckdb", version=0, table="inp", settings=wb.model_json())
    stale = su.records(g.linker.inference.predict())
    g.close()
    as_model_predicts = X.rows_diff(a, stale) is None
    wa.close()
    # model: SecondLinker keeps cache and database, switches inputs
    term = (X.HEADER + "\nEval vm_compute in (let s0 := " + X.coq_init("inp", 0, X.TF_COLS, 0, fixes) + " in "
            'let s0 := set_db K s0 (aset K keqb (st_db K s0) (PL K (LPlain "inp_b")) '
            '{| e_prov := PInput "inp_b" 2; e_origin := User |}) in '
            'let ops := [Predict; SecondLinker [LPlain "inp_b"] ["first_name"; "surname"] 0] in '
            "let s := run K keqb hash s0 ops in "
            "(hist_ok K keqb hash s0 ops, prov_eqb (predict_prov s) (predict_prov (fresh_of K keqb s 777 888)))).\n")
    ok, out = ctx.coqc_text("C07_wb", term)
    flat = " ".join(out.split())
    model_says_differs = ok and "(false, false)" in flat
    ctx.obligation("witness (b): model predicts that two linkers on one DatabaseAPI share the named concat_with_tf "
                   "(guard false, predict differs from fresh) exactly when the implementation does",
                   model_says_differs == (diff is not None), flat[-300:])
    ctx.cov["witness_b_differs"] = diff is not None
    if diff is not None:
        ctx.violation("a second Linker on the same DatabaseAPI reads the first linker's cached __splink__df_concat_with_tf",
                      {"case": ["Linker A(inp): predict", "Linker B(inp_b, same db_api): predict"], "implementation": diff,
                       "specification": "B.predict() equals a fresh linker over inp_b"},
                      {"scenario": "two_linkers_one_db_api" if as_model_predicts else "two_linkers_one_db_api_unpredicted_output",
                       "second_linker_output": "equals_prediction_over_first_linkers_input" if as_model_predicts else "other",
                       "shared_entry": "__splink__df_concat_with_tf"})
    ctx.expect_known("KF-C07-two-linkers-one-db-api", diff is not None and as_model_predicts, "named cache entries are no longer shared")


def new_api_same_database(ctx: Ctx):
    for backend in ("duckdb", "sqlite"):
        wa = X.World(backend, version=0)
        wa.apply(("predict",))
        wa.apply(("cluster", 0))
        wa.write_input(1)
        if backend == "duckdb":
            api2 = su.duckdb_api(wa.con)
        else:
            from splink.internals.sqlite.database_api import SQLiteAPI
            api2 = SQLiteAPI(wa.con)
        wb = X.World(backend, version=1, api=api2, create_input=False)
        a = wb.predict_rows()
        f = X.World(backend, version=1)
        b = f.predict_rows()
        d = X.rows_diff(a, b)
        f.close()
        wa.close()
        ctx.count_case(("new_api_same_database", backend), True, {"scenario": "new_api_same_database", "backend": backend})
        ctx.obligation(f"new DatabaseAPI on a database holding another API's tables sees the current rows ({backend})", d is None)
        if d is not None:
            ctx.violation("a new DatabaseAPI on the same database returns tables computed by a previous DatabaseAPI from old rows",
                          {"case": ["API 1: predict, cluster", "input rows change", "API 2 (same connection): predict"],
                           "backend": backend, "implementation": d, "specification": "equal to a fresh linker over the current rows"},
                          {"scenario": "new_api_same_database"})


def estimate_u_twice(ctx: Ctx):
    """7.16: with seed=None the second estimate_u must build its blocked pairs from its own sample."""
    import splink.comparison_library as cl
    import splink.internals.database_api as D
    from splink import Linker, SettingsCreator, block_on
    df = pd.DataFrame([{"unique_id": i, "first_name": "abcdefgh"[(i * 7 + i // 8) % 8], "surname": "xyz"[(i * 5 + i // 3) % 3]}
                       for i in range(300)])
    st = SettingsCreator(link_type="dedupe_only", comparisons=[cl.ExactMatch("first_name"), cl.ExactMatch("surname")],
                         blocking_rules_to_generate_predictions=[block_on("surname")])
    api = su.duckdb_api()
    lk = Linker(df, st, api)
    su.quiet()
    cache = lk._intermediate_table_cache
    calls = []
    for _ in range(2):
        cache.reset_executed_queries_tracker()
        cache.reset_queries_retrieved_from_cache_tracker()
        # keep the sample and the counts: read them before estimate_u drops them
        seen = {}
        real = D.DatabaseAPI._sql_to_splink_dataframe

        def spy(self, sql, templated_name, physical_name, _real=real, _seen=seen):
            out = _real(self, sql, templated_name, physical_name)
            if templated_name == "__splink__df_concat_sample":
                _seen["sample"] = self._execute_sql_against_backend(f"select count(*) from {physical_name}").fetchall()[0][0]
            if templated_name == "__splink__m_u_counts":
                _seen["pairs"] = self._execute_sql_against_backend(
                    f"select sum(u_count) from {physical_name} where output_column_name = 'first_name'").fetchall()[0][0]
            return out
        type(api)._sql_to_splink_dataframe = spy
        try:
            lk.training.estimate_u_using_random_sampling(max_pairs=1500)
        finally:
            del type(api)._sql_to_splink_dataframe
        seen["hit_blocked"] = any(d.templated_name == "__splink__blocked_id_pairs" for d in cache.queries_retrieved_from_cache)
        calls.append(seen)
    n2 = calls[1].get("sample", 0)
    expected = n2 * (n2 - 1) // 2
    got = int(calls[1].get("pairs") or 0)
    ok = got == expected and not calls[1]["hit_blocked"]
    ctx.cov["estimate_u_twice"] = calls
    if not ok:
        ctx.violation("second unseeded estimate_u_using_random_sampling counts pairs of the FIRST call's sample "
                      "(blocked pairs served from the table cache)",
                      {"case": "estimate_u_using_random_sampling(max_pairs=1500) twice, seed=None, 300 rows",
                       "implementation": calls, "specification": f"all {expected} pairs of the second sample are counted"},
                      {"history_class": "estimate_u_unseeded_twice"})
    ctx.obligation("estimate_u twice without seed uses its own sample's pairs", ok)


# ----------------------------------------------------------------------------------------- realtime
def rt_settings(kind: int):
    import splink.comparison_library as cl
    from splink import SettingsCreator, block_on
    comps = [[cl.ExactMatch("first_name"), cl.ExactMatch("surname")],
             [cl.LevenshteinAtThresholds("first_name", 1), cl.ExactMatch("surname"), cl.ExactMatch("city")]][kind % 2]
    return SettingsCreator(link_type="dedupe_only", comparisons=comps,
                           blocking_rules_to_generate_predictions=[block_on("surname")])


def rt_result(res):
    rows = su.records(res)
    cols = sorted(rows[0].keys()) if rows else []
    return cols, rows


def realtime_flag_probe() -> bool:
    from splink.internals.realtime import compare_records
    api = su.duckdb_api()
    s = rt_settings(0)
    r1 = {"unique_id": 1, "first_name": "ann", "surname": "x", "city": "l"}
    r2 = {"unique_id": 2, "first_name": "ann", "surname": "x", "city": "m"}
    compare_records(r1, r2, s, api, use_sql_from_cache=True, include_found_by_blocking_rules=False)
    cols, _ = rt_result(compare_records(r1, r2, s, api, use_sql_from_cache=True, include_found_by_blocking_rules=True))
    return "found_by_blocking_rules" in cols


def realtime_stage(ctx: Ctx, fixes: dict):
    from harness import c07_rt
    from splink.internals.realtime import compare_records
    c07_rt.realtime_stage(ctx, fixes)
    recs = c07_rt.RECS
    # witness (c) DESIGN 7.8
    import splink.internals.realtime as R
    R._sql_cache = R.SQLCache()
    api = su.duckdb_api()
    s = rt_settings(0)
    compare_records(recs[0], recs[1], s, api, use_sql_from_cache=True, include_found_by_blocking_rules=False)
    cols, _ = rt_result(compare_records(recs[0], recs[1], s, api, use_sql_from_cache=True, include_found_by_blocking_rules=True))
    rcols, _ = rt_result(compare_records(recs[0], recs[1], rt_settings(0), api, use_sql_from_cache=False,
                                         include_found_by_blocking_rules=True))
    stale = cols != rcols
    ctx.cov["witness_c_stale"] = stale
    ctx.obligation("witness (c): probe fx78 agrees with the replay", stale == (not fixes["fx78"]))
    if stale:
        ctx.violation("compare_records(include_found_by_blocking_rules=True) after a cached call without the flag returns the "
                      "cached SQL lacking the column",
                      {"case": [("settings", True, False), ("settings", True, True)],
                       "implementation": {"columns_missing": sorted(set(rcols) - set(cols))},
                       "specification": "same columns as the uncached call"},
                      {"scenario": "realtime_flag_after_cached_call"})
    ctx.expect_known("KF-C07-realtime-flag", stale, "the flag is now part of the realtime cache key")


# ----------------------------------------------------------------------------------------- entry
def run(ctx: Ctx):
    ctx.cov["rule"] = (
        "histories: seeded sequences (length 3..12 quick, ..25 thorough) over predict, deterministic_link, estimate_u, EM, "
        "estimate_probability_two_random_records_match, compute_tf_table, register_term_frequency_lookup, "
        "find_matches_to_new_records, compare_two_records, cluster, accuracy_analysis_from_labels_column/_table, "
        "prediction_errors_from_labels_column/_table, estimate_m_from_label_column, estimate_m_from_pairwise_labels, unlinkables, "
        "profile_columns, completeness_chart, blocking-analysis functions, multi-threshold clustering, single best links, "
        "compute_graph_metrics, invalidate_cache and input change + invalidate_cache on "
        "DuckDB and SQLite (29 operation kinds, two of them calls built to fail: find_matches_to_new_records / compare_two_records on records lacking a needed column or with a blocking rule on a missing column), plus all histories of length <= 2 over a 13-letter alphabet and of length 3 over its first 11 letters (thorough; quick: length 1 and a seeded 45% of length 2); 30% of the random histories run in a link_and_dedupe world with two input tables; every random history ends with a second table-returning probe operation compared with the fresh linker; "
        "a history is non-trivial when it has >= 2 kinds of operation and at least one cache hit; distinct by "
        "(backend, history). Realtime: sequences of compare_records calls over 12 settings models (6 configure() variants x 2 bases) passed as SettingsCreator object / plain dict / dict of creators / file name (str, Path), both flags, both cache modes, 4 records; object creation, mutation, collection with id() reuse; file rewritten between calls and two DatabaseAPIs of different dialects (oracle only).")
    ctx.trusted += [
        "modelled, not verified: sha256(sql + uid)[:9] is collision free on the tables of one DatabaseAPI (Section hypothesis hash_inj)",
        "modelled: the SQL text of a pipeline is determined by templated name, model parameters, and the physical names it reads",
        "modelled: __splink__df_concat_with_tf read as __splink__df_concat has the rows of __splink__df_concat (tf lookups have unique keys)",
        "harness X: loop tables of EM / connected components (m_u_counts, representatives, neighbours, ...) are excluded from the trace; "
        "their absence from the cache after every operation is checked",
        "salted blocking rules (random() in __splink__df_concat) and unseeded random sampling are outside the provenance model",
    ]
    ok = ctx.proof_stage("Properties/C07.v")
    if not ok:
        ctx.violation("theorems of Properties/C07.v no longer check", {"broken": "Properties/C07.v"}, found_input=False)
    fixes = probe_fixes(ctx)
    ctx.cov["tree_variant"] = fixes
    ctx.cov["translated_sources"] = {p: git_blob(REPO / p) for p in [
        "splink/internals/database_api.py", "splink/internals/cache_dict_with_logging.py",
        "splink/internals/vertically_concatenate.py", "splink/internals/term_frequencies.py",
        "splink/internals/linker_components/table_management.py", "splink/internals/linker_components/inference.py",
        "splink/internals/realtime.py", "splink/internals/estimate_u.py"]}
    ctx.log(f"tree variant: {fixes}")
    if ctx.replay:
        rp = json.loads(open(ctx.replay).read())
        case = rp.get("case")
        if isinstance(case, list) and case and isinstance(case[0], list) and isinstance(case[0][0], str):
            hist = [tuple(o) for o in case]
            r = run_history(ctx, rp.get("backend", "duckdb"), hist, fixes, avoid_findings=False,
                            probe_op=tuple(rp["probe_op"]) if rp.get("probe_op") else None, link=bool(rp.get("link")))
            bad, errs, _ = evaluate(ctx, "C07_replay", [r] if not r["raised"] else [])
            ctx.log(f"replay: raised={r['raised']} diff={r.get('diff')} model_mismatch={bool(bad)}")
            if r["raised"] or r.get("diff") is not None or bad:
                ctx.violation("replayed history still fails", {"case": hist, "implementation": r.get("diff") or r["raised"],
                                                                "specification": diagnose(ctx, r) if bad else "equal to fresh"},
                              classify(hist))
            return
    history_stage(ctx, fixes)
    witness_stage(ctx, fixes)
    realtime_stage(ctx, fixes)
