"""C06, thorough tier only: the same pipelines on Spark (local[2]) against the DuckDB reference.
Restricted to comparisons whose functions exist on the installed Spark 4 without the Scala UDF jar
(no Jaro / Jaro-Winkler / Damerau-Levenshtein); ANSI mode is switched off as on the Spark 3 line Splink targets
(division by zero gives NULL)."""
from __future__ import annotations

import json
import os
import random

from harness.common import Ctx

SPARK_OK = ["lev_sur", "dist_fn", "exact_city_tf", "exact_dob", "lev_dob", "amount", "km", "city_custom"]
# comparisons only DuckDB and Spark accept (arrays, date parsing, regex); DateOfBirthComparison (damerau_levenshtein) and
# EmailComparison (jaro_winkler) need the Scala UDF jar that the installed Spark 4 lacks: recorded, not run
FORCED = [["arr_intersect", "date_diff", "lev_sur"], ["postcode", "exact_city_tf", "arr_intersect"], None]
NEEDS_UDF_JAR = ["dob_cmp", "email"]


def session():
    os.environ.setdefault("PYSPARK_SUBMIT_ARGS", "--driver-memory 6g pyspark-shell")
    from pyspark.sql import SparkSession
    spark = (SparkSession.builder.master("local[2]").appName("verif-c06").config("spark.ui.enabled", "false")
             .config("spark.sql.shuffle.partitions", "2").config("spark.default.parallelism", "2")
             .config("spark.sql.ansi.enabled", "false").config("spark.sql.session.timeZone", "UTC").getOrCreate())
    spark.sparkContext.setLogLevel("OFF")
    return spark


def run(ctx: Ctx):
    from harness import c06, c06_x
    from splink.internals.spark.database_api import SparkAPI
    spark = session()

    def sx(q):
        return spark.sql(q).collect()[0][0]
    c06.table_stage(ctx, ["spark"], spark_exec=sx)
    n = len(FORCED)
    ctx.cov["spark_comparisons_needing_udf_jar_not_run"] = NEEDS_UDF_JAR
    terms, metas = [], []
    for i in range(n):
        case = c06_x.gen_pipeline(ctx.rng, 1000 + i, ["duckdb", "spark"])
        if FORCED[i]:
            case["spec"]["comparisons"] = list(FORCED[i])
        else:
            case["spec"]["comparisons"] = [c for c in case["spec"]["comparisons"] if c in SPARK_OK] or ["lev_sur", "exact_city_tf"]
            if len(case["spec"]["comparisons"]) < 2:
                case["spec"]["comparisons"].append("amount" if "amount" not in case["spec"]["comparisons"] else "lev_sur")
        case["tables"] = [t[:14] for t in case["tables"]]      # local[2] with a 6g heap: keep the clustering loop small
        for c in case["spec"]["comparisons"]:
            ctx.hist("spark_comparison_in_pipeline", c)
        shared = c06_x.shared_settings(case)
        ctx.hist("spark_pipeline_creators_reused_from_duckdb", str(shared is not None))
        try:
            ref = c06_x.run_backend(case, "duckdb", settings=shared)
        except Exception as e:
            ctx.hist("pipeline_reference_error", type(e).__name__)
            continue
        for t in spark.catalog.listTables():
            if t.isTemporary:
                spark.catalog.dropTempView(t.name)
        api = SparkAPI(spark_session=spark, break_lineage_method="persist", num_partitions_on_repartition=2)
        try:
            oth = c06_x.run_backend(case, "spark", api=api, settings=shared)
        except Exception as e:
            if "OutOfMemoryError" in str(e) or isinstance(e, ConnectionRefusedError) or "Connection refused" in str(e):
                # sandbox resource limit of the local JVM, not a linkage difference
                ctx.hist("spark_resource_error_skipped", "OutOfMemoryError" if "OutOfMemory" in str(e) else "jvm_gone")
                ctx.notes.append(f"spark pipeline {case['idx']} skipped: JVM resource error")
                if "OutOfMemory" not in str(e):
                    break
                continue
            ctx.violation(f"pipeline succeeds on duckdb but raises on spark: {type(e).__name__}: {str(e)[:200]}",
                          {"case": case, "implementation": f"spark: {e!r}"[:400], "specification": "duckdb: success"},
                          {"dialect": "spark", "asymmetric_failure": True, "comparisons": sorted(case["spec"]["comparisons"])})
            continue
        if ref["em_sessions"] != oth["em_sessions"] and c06_x.underflow_range(ref):
            ctx.hist("skipped_underflow_degenerate_em", "spark")
            continue
        term, diffs, stats = c06_x.compare(ctx, case, ref, oth, "spark")
        ctx.count_case(("pipe", "spark", json.dumps(case, sort_keys=True, default=str)), stats["pairs"] >= 10,
                       {"backend": "spark", "spec": case["spec"], **stats})
        ctx.hist("spark_pipelines", "run")
        terms.append(term)
        metas.append((case, "spark", diffs, stats))
    c06_x.report(ctx, "C06_x_spark", terms, metas)
