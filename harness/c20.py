"""C20  Descriptive outputs are exact recounts of the data.

 P  theorems in Properties/C20.v about Model/Descriptive.v (tf = relative frequency among
    non-null values, sums to 1, is the value joined for scoring; completeness = share of
    non-null cells per dataset; comparison-vector distribution and match-weight histogram
    partition the scored pairs; unlinkables cum_prop = share of records at or below p).
 T  translators/c20_sql.py regenerates the five SQL snippets from /repo and compares their
    sqlglot-normalised text with the forms the model was written against (syntactic tie).
 X  real profile_columns (its tables read through a wrapped DatabaseAPI), compute_tf_table, completeness_data, comparison-vector distribution (captured from
    comparison_viewer_dashboard), histogram_data (match_weights_histogram) and unlinkables_data
    (unlinkables_chart) on DuckDB and SQLite vs the model evaluated inside Coq; every case is
    also recounted directly in Python (oracle for the search / violation report).
"""
from __future__ import annotations

import copy
import json
import shutil
import traceback

from harness import c20_x as X
from harness.common import Ctx


def shrink(case, kind):
    best, budget = case, 30

    def fails(c):
        res = X.run_impl(c)
        return any(k == kind for k, _ in X.build(c, res)[2])
    progress = True
    while progress and budget > 0:
        progress = False
        for t in range(len(best.get("raw_tables") or [])):       # raw tables first (cheap to drop)
            for i in range(len(best["raw_tables"][t])):
                if len(best["raw_tables"][t]) <= 1 or budget <= 0:
                    continue
                d = copy.deepcopy(best)
                del d["raw_tables"][t][i]
                if any(all(r[c] is None for r in tb) for tb in d["raw_tables"] for c in ("a", "b")):
                    continue
                budget -= 1
                try:
                    if fails(d):
                        best, progress = d, True
                        break
                except Exception:
                    continue
            if progress:
                break
        if progress:
            continue
        for t in range(len(best["tables"])):
            for i in range(len(best["tables"][t])):
                if len(best["tables"][t]) <= 1 or budget <= 0:
                    continue
                d = copy.deepcopy(best)
                del d["tables"][t][i]
                if any(all(r[c] is None for tb in d["tables"] for r in tb) for c in X.COLS):
                    continue
                budget -= 1
                try:
                    if fails(d):
                        best, progress = d, True
                        break
                except Exception:
                    continue
            if progress:
                break
    return best


def run(ctx: Ctx):
    ctx.cov["rule"] = ("X: seeded datasets of 1-3 tables whose columns are NULL-heavy / all NULL but one / single-valued / "
                       "single-valued with NULLs / all-distinct / mixed, plus 2-3 raw tables without an id column whose rows are exactly "
                       "duplicated within and across tables (completeness_data and profile_columns treat tables as bags), registered BY NAME on one "
                       "DatabaseAPI, their contents replaced and the calls repeated; histogram target bins in {3..2000} also on thresholded "
                       "(narrow-range) predictions; 2 exact-match comparisons with optional term-frequency "
                       "adjustment, 0-2 blocking rules, all link types, target bins in {3,5,10,30,60,100,150,400,2000}; each case yields about "
                       "20-25 Coq-evaluated comparisons (3 tf tables, tf join, completeness per column, cvd, histogram, unlinkables, profile_columns per column: value frequencies / percentiles / top n / bottom n); "
                       "non-trivial = has NULLs, >= 2 distinct gamma vectors and >= 2 listed unlinkable probabilities.")
    ctx.trusted += [
        "translators/c20_sql.py (sqlglot-normalised text of the five SQL snippets compared with the audited forms; syntactic)",
        "harness X: gamma vectors, match weights and self-link scores are read from the implementation (scoring is C02's subject)",
        "modelled not verified: SQL GROUP BY / window / round() of the engines; DuckDB casts proportions, completeness and "
        "bin_high to 32-bit floats (tolerance 1e-6; cum_prop 1e-5); cases with a score within 1e-9 of a bin edge or a self "
        "score within 1e-4 of a rounding boundary are skipped and counted",
        "completeness_data runs on DuckDB and SQLite (SQLite since /repo 452d5274)",
    ]
    ok = ctx.proof_stage("Properties/C20.v")
    if not ok:
        ctx.violation("theorems of Properties/C20.v no longer check", {"broken": "Properties/C20.v"}, found_input=False)

    # T: the SQL snippets the model was written against are still the ones /repo emits
    broken_T = []
    try:
        from translators import c20_sql as T
        now = T.snippets()
        for name, want in T.EXPECTED.items():
            if not ctx.obligation(f"SQL shape of {name} is the modelled one", now.get(name) == want, str(now.get(name))[:300]):
                broken_T.append(name)
    except Exception as e:  # fail closed
        ctx.obligation("regenerate the descriptive SQL snippets", False, repr(e))
        broken_T.append("translation failed: " + repr(e)[:200])

    if not ctx.replay:
        try:
            rep, first, second, want = X.replay_witness_completeness_stale()
            ctx.cov["witness_completeness_after_table_replaced"] = {"first": first, "second_without_cleanup": second, "fresh": want}
            if rep:
                ctx.violation("completeness_data answers from the SQL-keyed table cache after a named input table was replaced on the "
                              f"same DatabaseAPI (no cleanup call): null/total rows {second} instead of {want}",
                              {"case": X.WITNESS_COMPLETENESS_STALE, "implementation": {"first": first, "second": second},
                               "specification": {"second": want}},
                              {"named_table_replaced_without_cleanup": True, "kind": "stale_completeness"})
            rep2, labs = X.replay_witness_completeness_labels()
            ctx.cov["witness_completeness_named_tables_labels"] = labs
            if rep2:
                ctx.violation(f"completeness_data on two tables passed by name labels its rows source_dataset={labs} instead of the table names",
                              {"case": X.WITNESS_COMPLETENESS_LABELS, "implementation": {"source_dataset": labs},
                               "specification": {"source_dataset": sorted(X.WITNESS_COMPLETENESS_LABELS["tables"])}},
                              {"completeness_named_tables_unlabelled": True, "kind": "completeness_labels"})
        except Exception:
            tb = traceback.format_exc()
            ctx.log("witness replay raised", tb[-800:])
            ctx.violation("witness replays of completeness_data could not be run", {"broken": "witness completeness", "traceback": tb},
                          found_input=False)

    if ctx.replay:
        rp = json.loads(open(ctx.replay).read())
        cases = [rp["case"]] if "case" in rp else []
    else:
        n = 65 if ctx.quick else 900
        cases = [X.gen_case(ctx.rng, "sqlite" if i % 3 == 2 else "duckdb") for i in range(n)]

    terms, owners, labels = [], [], []
    reported, found_any = set(), False
    skipped = {}
    for ci, case in enumerate(cases):
        try:
            res = X.run_impl(case)
            ts, ls, bad, sk = X.build(case, res)
        except Exception:
            tb = traceback.format_exc()
            ctx.log("implementation/harness raised on case", ci, tb[-1500:])
            ctx.violation("descriptive functions raised on a valid input (or the harness could not drive them)",
                          {"case": case, "traceback": tb}, {"backend": case["backend"], "kind": "raise"})
            continue
        for s in sk:
            skipped[s] = skipped.get(s, 0) + 1
        has_null = any(r[c] is None for t in case["tables"] for r in t for c in X.COLS)
        ngv = len(res.get("cvd", []))
        nun = len(res["unlinkables"])
        ctx.count_case(json.dumps(case, sort_keys=True), has_null and ngv >= 2 and nun >= 2,
                       {"backend": case["backend"], "link_type": case["link_type"], "records": sum(len(t) for t in case["tables"]),
                        "pairs": len(res["predict"]), "gamma_vectors": ngv, "unlinkable_rows": nun,
                        "hist_rows": len(res.get("hist", []))})
        ctx.hist("backend", case["backend"]); ctx.hist("link_type", case["link_type"]); ctx.hist("tables", len(case["tables"]))
        ctx.hist("gamma_vectors", min(ngv, 9)); ctx.hist("unlinkable_rows", min(nun, 9)); ctx.hist("hist_rows", min(len(res.get("hist", [])), 12))
        ctx.hist("num_bins", case["num_bins"]); ctx.hist("scored_pairs", min(len(res["predict"]) // 10 * 10, 100))
        ctx.hist("tf_columns", sum(1 for c in case["comparisons"] if c["tf"]))
        for t, lab in zip(ts, ls):
            terms.append(t); owners.append(ci); labels.append(lab)
        for kind, detail in bad:
            found_any = True
            if kind in reported or len(reported) >= 4:
                continue
            reported.add(kind)
            small = shrink(case, kind)
            try:
                r2 = X.run_impl(small)
                d2 = [d for k, d in X.build(small, r2)[2] if k == kind] or [detail]
            except Exception:
                small, r2, d2 = case, res, [detail]
            ctx.violation(f"descriptive output is not the recount ({kind}): {d2[0][:300]}",
                          {"case": small, "implementation": {k: r2.get(k) for k in ("tf", "completeness", "cvd", "hist", "unlinkables", "profile")},
                           "specification": d2[:5]},
                          {"backend": small["backend"], "kind": kind})
    ctx.cov["skipped"] = skipped
    bad_idx, errs = ctx.eval_cases("C20_x", X.HEADER, terms, "run_case", shard=80)
    for e in errs:
        ctx.log(e)
    okx = ctx.obligation("correspondence: descriptive outputs of the implementation = model evaluated in Coq",
                         not bad_idx and not errs, f"{len(bad_idx)} of {len(terms)} terms disagree: {[labels[i] for i in bad_idx[:6]]}")
    ctx.cov["coq_evaluated_terms"] = len(terms)
    kinds = {}
    for lab in labels:
        kinds[lab[0]] = kinds.get(lab[0], 0) + 1
    ctx.cov["coq_terms_by_output"] = kinds
    if not okx and not found_any:
        which = sorted({owners[i] for i in bad_idx})[:3]
        ctx.violation("model (Model/Descriptive.v) and implementation disagree although the Python recount accepts the output: "
                      + str([labels[i] for i in bad_idx[:6]]),
                      {"broken": "correspondence C20_x", "outputs": [labels[i] for i in bad_idx[:10]],
                       "cases": [cases[i] for i in which], "errors": errs[:2]}, found_input=False)
    if broken_T and not found_any:
        ctx.violation("descriptive SQL differs from the text Model/Descriptive.v was written against: " + ", ".join(broken_T),
                      {"broken": "T: SQL shape of " + ", ".join(broken_T)}, found_input=False)
    shutil.rmtree(X.SCRATCH, ignore_errors=True)
