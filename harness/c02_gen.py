"""C02 shared pieces: seeded model specifications, their Coq `level` terms (the model side, built
from the specification only) and the real Splink settings built from the same specification
through Splink's public constructors (the implementation side).

A *spec* is JSON-able:
  {"prior": "3/4", "link_type": "dedupe_only", "tf_cols": ["a", ...],
   "comparisons": [{"name": "a", "route": "custom|lib_exact|lib_lev|dict",
       "levels": [{"kind": "null|exact|lev|custom|else", "col": "a", "arg": 1, "sql": "...",
                   "m": "3/4", "u": "1/8", "tf_col": "a"|None, "w": "1/2", "min_u": "0",
                   "disable": false, "exact_col": "a"|None,
                   "u_via": "creator|setter", "w_via": "creator|poke"}]}]}
Numbers are strings of exact fractions; the floats given to Splink are float(Fraction).
"""
from __future__ import annotations

from fractions import Fraction as Fr

from harness.common import coq_Q, coq_bool, coq_list, coq_opt

COLS = ["a", "b", "c", "d"]

COQ_LEVEL_HELPER = """
Definition L (c : nat) (n e : bool) (m u : Q) (tc : option nat) (w mu : Q) (d : bool) (ec : list nat) : level :=
  {| lcond := c; is_null := n; is_else := e; lm := m; lu := u; tf_col := tc; tf_w := w; tf_min_u := mu;
     disable_exact_detect := d; exact_cols := ec |}.
"""


def fr(x) -> Fr:
    return Fr(x)


def fl(x) -> float:
    return float(Fr(x))


# ---------------------------------------------------------------------------------------------
# generation
# ---------------------------------------------------------------------------------------------
M_X = ["1/20", "1/10", "1/5", "3/10", "1/2", "7/10", "9/10", "19/20", "1", "1/1000", "1/4", "3/100"]
U_X = ["1/20", "1/10", "1/5", "3/10", "1/2", "7/10", "9/10", "1", "1/1000", "1/4", "3/100", "1/200"]
M_T = [f"{k}/16" for k in (1, 2, 3, 5, 8, 12, 15, 16)]
U_T = ["1/2", "1/4", "1/8", "1/16", "1"]
PRIOR_X = ["1/10000", "1/100", "1/10", "3/10", "1/2", "9/10", "1/3000"]
PRIOR_T = ["1/2", "3/4", "7/8", "15/16"]
W_ORD = ["1", "1", "1/2", "1/4", "3/4"]
MINU = ["0", "0", "1/8", "3/10", "1/100", "1/2"]


def custom_sqls(x: str, y: str):
    """(sql, exact_col) menu of custom-SQL level conditions on column x (y another column)."""
    return [
        (f"substr({x}_l,1,1) = substr({x}_r,1,1)", None),
        (f"length({x}_l) = length({x}_r)", None),
        (f"{x}_l = {x}_r", x),                       # hand-written exact match: detected as exact
        (f"{x}_l = {x}_r AND {y}_l = {y}_r", None),  # exact on two columns: not a single-column exact match
    ]


M_P2 = ["1", "1/2", "1/4", "1/8"]
U_P2 = ["1", "1/2", "1/4", "1/8", "1/16"]


def ecols(lv) -> list:
    """columns of an AND-of-equalities level ([] if the level is not of that shape)"""
    if lv.get("exact_cols") is not None:
        return list(lv["exact_cols"])
    return [lv["exact_col"]] if lv.get("exact_col") else []


def _lv(kind, col, mvals, uvals, rng, **kw):
    lv = {"kind": kind, "col": col, "arg": None, "sql": None, "m": rng.choice(mvals), "u": rng.choice(uvals),
          "tf_col": None, "w": "1", "min_u": "0", "disable": False, "exact_col": None, "exact_cols": None,
          "u_via": "creator", "w_via": "creator"}
    lv.update(kw)
    return lv


def gen_multi_exact_comparison(rng, x: str, y: str, mode: str):
    """a comparison over two columns in which an exact match on BOTH columns is a level of its own next to the
    single-column exact levels that carry TF adjustments (forename/surname style).  Either the library's
    ForenameSurnameComparison or hand-written levels with the two-column level before or after the single ones."""
    mvals, uvals = (M_T, U_T) if mode == "T" else (M_P2, U_P2) if mode == "P2" else (M_X, U_X)
    if rng.random() < 0.4:
        ths = rng.choice([[0.92, 0.88], [0.9], [0.95, 0.8]])
        levels = [_lv("null", x, mvals, uvals, rng, both=[x, y]),      # (x_l IS NULL OR x_r IS NULL) AND (y_l IS NULL OR y_r IS NULL)
                  _lv("and_exact", x, mvals, uvals, rng, exact_cols=[x, y]),
                  _lv("reversed", x, mvals, uvals, rng)]
        levels += [_lv("jw2", x, mvals, uvals, rng, arg=t) for t in ths]
        levels += [_lv("exact", y, mvals, uvals, rng, exact_col=y, tf_col=y),
                   _lv("exact", x, mvals, uvals, rng, exact_col=x, tf_col=x),
                   _lv("else", x, mvals, uvals, rng)]
        return {"name": f"{x}_{y}", "route": "lib_fnsn", "cols": [x, y], "jw": ths, "levels": levels}
    both = _lv("custom", x, mvals, uvals, rng, sql=f"{x}_l = {x}_r AND {y}_l = {y}_r", exact_cols=[x, y])
    if rng.random() < 0.3:
        both["tf_col"], both["disable"] = rng.choice([x, y]), rng.random() < 0.5     # TF on the two-column level itself
        both["w"], both["min_u"] = rng.choice(W_ORD), rng.choice(MINU)
    singles = [_lv("exact", y, mvals, uvals, rng, exact_col=y, tf_col=y, w=rng.choice(W_ORD), min_u=rng.choice(MINU)),
               _lv("exact", x, mvals, uvals, rng, exact_col=x, tf_col=x, w=rng.choice(W_ORD), min_u=rng.choice(MINU))]
    rng.shuffle(singles)
    fuzzy = [_lv("lev", c, mvals, uvals, rng, arg=rng.choice([1, 2]), tf_col=c, w=rng.choice(W_ORD), min_u=rng.choice(MINU))
             for c in rng.sample([x, y], rng.choice([1, 2]))]
    if rng.random() < 0.4:
        fuzzy.append(_lv("custom", x, mvals, uvals, rng, sql=f"substr({x}_l,1,1) = substr({x}_r,1,1)", tf_col=x,
                         w=rng.choice(W_ORD), min_u=rng.choice(MINU)))
    mids = [both] + singles if rng.random() < 0.7 else singles + [both]
    if rng.random() < 0.15:                       # a fuzzy TF level listed before the exact levels
        mids = fuzzy[:1] + mids + fuzzy[1:]
    else:
        mids = mids + fuzzy
    mids = mids[:4] if len(mids) > 4 and rng.random() < 0.5 else mids
    # every TF-adjusted level must find its single-column exact level (or use its own u)
    for lv in mids:
        if lv["tf_col"] and not lv["disable"] and not any(ecols(o) == [lv["tf_col"]] for o in mids):
            lv["disable"] = True
    levels = [_lv("null", x, mvals, uvals, rng)] + mids + [_lv("else", x, mvals, uvals, rng)]
    return {"name": x, "route": rng.choice(["custom", "custom", "dict"]), "cols": [x, y], "levels": levels}


def gen_comparison(rng, x: str, others: list[str], mode: str, boundary: bool, allow_inf: bool):
    mvals, uvals = (M_T, U_T) if mode == "T" else (M_P2, U_P2) if mode == "P2" else (M_X, U_X)
    route = rng.choice(["custom", "custom", "custom", "lib_exact", "lib_lev", "dict"])
    levels = []
    y = rng.choice(others) if others else x
    if route == "lib_exact":
        kinds = [("null", None), ("exact", None), ("else", None)]
    elif route == "lib_lev":
        ths = rng.choice([[1], [1, 2], [2]])
        kinds = [("null", None), ("exact", None)] + [("lev", k) for k in ths] + [("else", None)]
    else:
        n_mid = rng.choice([1, 1, 2, 2, 3, 4])
        menu = [("exact", None), ("lev", 1), ("lev", 2)] + [("custom", s) for s in custom_sqls(x, y)]
        mids = []
        if rng.random() < 0.75:
            mids.append(("exact", None))
        while len(mids) < n_mid:
            k = rng.choice(menu)
            if k not in mids and not (k[0] == "custom" and k[1][1] == x and ("exact", None) in mids) \
                    and not (k[0] == "exact" and any(q[0] == "custom" and q[1][1] == x for q in mids)):
                mids.append(k)
        mids = mids[:n_mid]
        # keep "exact" before fuzzier levels most of the time, but not always
        if rng.random() < 0.2:
            rng.shuffle(mids)
        kinds = list(mids)
        if rng.random() < 0.9:
            pos = 0 if rng.random() < 0.85 else rng.randint(0, len(kinds))
            kinds.insert(pos, ("null", None))
        kinds.append(("else", None))
    has_tf = rng.random() < 0.55 and mode != "P2"
    has_exact = any(k == "exact" or (k == "custom" and a[1] == x) for k, a in kinds)
    for kind, arg in kinds:
        lv = {"kind": kind, "col": x, "arg": None, "sql": None, "m": rng.choice(mvals), "u": rng.choice(uvals),
              "tf_col": None, "w": "1", "min_u": "0", "disable": False, "exact_col": None,
              "u_via": "creator", "w_via": "creator"}
        if kind == "lev":
            lv["arg"] = arg
        if kind == "custom":
            lv["sql"], lv["exact_col"] = arg
            if " AND " in lv["sql"]:
                lv["exact_cols"] = [x, y]
        if kind == "exact":
            lv["exact_col"] = x
        if route in ("lib_exact", "lib_lev"):
            if kind == "exact" and has_tf:
                lv["tf_col"] = x
        elif has_tf:
            r = rng.random()
            if kind in ("exact",) and r < 0.8:
                lv["tf_col"] = x
            elif kind == "custom" and lv["exact_col"] == x and r < 0.8:
                lv["tf_col"] = x
            elif kind in ("lev", "custom") and r < 0.55:
                lv["tf_col"] = x
                if not has_exact or rng.random() < 0.2:
                    lv["disable"] = True
                if lv["disable"] and others and rng.random() < 0.3:
                    lv["tf_col"] = y          # TF on another column, own u
            elif kind == "null" and r < 0.12:
                lv["tf_col"] = x              # configured but inert
            # (a TF column on an ELSE level alone is not generated: the level's SQL uses no column, so Splink does
            #  not select the tf_ columns and the engine rejects the query loudly)
            if lv["tf_col"] is not None:
                lv["w"] = rng.choice(W_ORD)
                lv["min_u"] = rng.choice(MINU)
                if boundary and rng.random() < 0.6:
                    lv["w"] = "0"
                elif not boundary and rng.random() < 0.12:
                    lv["w"], lv["w_via"] = "0", "poke"
        levels.append(lv)
    # u = 0 (infinite Bayes factor) on a level whose u is not the base of any TF adjustment
    if allow_inf:
        for lv in levels:
            if lv["kind"] in ("null", "else"):
                continue
            feeds_tf = (lv["tf_col"] is not None) or (lv["exact_col"] is not None and any(
                o["tf_col"] == lv["exact_col"] for o in levels))
            if not feeds_tf and rng.random() < 0.12:
                lv["u"] = "0"
                lv["u_via"] = "creator" if boundary else "setter"
    if route in ("lib_exact", "lib_lev"):
        for lv in levels:
            lv["w"], lv["min_u"], lv["disable"] = "1", "0", False
    return {"name": x, "route": route, "levels": levels}


def gen_spec(rng, mode="X", boundary=False, allow_inf=True, ncmp=None, multi_exact=None):
    ncmp = ncmp or rng.choice([1, 2, 2, 3, 3, 4])
    cols = rng.sample(COLS, ncmp)
    if multi_exact is None:
        multi_exact = mode != "P2" and not boundary and rng.random() < 0.15
    if multi_exact:
        x = cols[0]
        y = rng.choice([c for c in COLS if c != x])
        comps = [gen_multi_exact_comparison(rng, x, y, mode)]
        comps += [gen_comparison(rng, c, [o for o in COLS if o != c], mode, boundary, allow_inf) for c in cols[1:] if c != y]
    else:
        comps = [gen_comparison(rng, x, [c for c in COLS if c != x], mode, boundary, allow_inf) for x in cols]
    tf_cols = sorted({lv["tf_col"] for c in comps for lv in c["levels"] if lv["tf_col"]})
    return {"prior": "1/2" if mode == "P2" else rng.choice(PRIOR_T if mode == "T" else PRIOR_X), "link_type": "dedupe_only",
            "tf_cols": tf_cols, "comparisons": comps, "boundary": boundary, "mode": mode}


def spec_features(spec) -> dict:
    lv = [l for c in spec["comparisons"] for l in c["levels"]]
    return {
        "tf_weight_zero_via_creator": any(l["tf_col"] and fr(l["w"]) == 0 and l["w_via"] == "creator" for l in lv),
        "u_zero_via_creator": any(fr(l["u"]) == 0 and l["u_via"] == "creator" and l["kind"] not in ("null", "else") for l in lv),
    }


# ---------------------------------------------------------------------------------------------
# model side: Coq terms from the specification alone
# ---------------------------------------------------------------------------------------------
def level_term(spec, lv, idx: int) -> str:
    cid = {c: i for i, c in enumerate(spec["tf_cols"])}
    allc = {c: i for i, c in enumerate(spec["tf_cols"] + [c for c in COLS if c not in spec["tf_cols"]])}
    tc = coq_opt(lv["tf_col"], lambda c: f"{cid[c]}%nat")
    ec = coq_list([f"{allc[c]}%nat" for c in ecols(lv)], "nat")
    return (f"(L {idx}%nat {coq_bool(lv['kind'] == 'null')} {coq_bool(lv['kind'] == 'else')} {coq_Q(fr(lv['m']))} "
            f"{coq_Q(fr(lv['u']))} {tc} {coq_Q(fr(lv['w']))} {coq_Q(fr(lv['min_u']))} {coq_bool(lv['disable'])} {ec})")


def cmps_term(spec) -> str:
    return coq_list([coq_list([level_term(spec, lv, i) for i, lv in enumerate(c["levels"])], "level")
                     for c in spec["comparisons"]], "(list level)")


# ---------------------------------------------------------------------------------------------
# implementation side: real Splink objects from the same specification
# ---------------------------------------------------------------------------------------------
def _level_creator(lv, dialect):
    import splink.comparison_level_library as cll
    k = lv["kind"]
    if k == "null":
        c = cll.NullLevel(lv["col"])
    elif k == "exact":
        c = cll.ExactMatchLevel(lv["col"])
    elif k == "lev":
        c = cll.LevenshteinLevel(lv["col"], lv["arg"])
    elif k == "custom":
        c = cll.CustomLevel(lv["sql"], label_for_charts="custom " + lv["sql"][:20])
    else:
        c = cll.ElseLevel()
    kw = {}
    if k != "null":
        kw["m_probability"] = fl(lv["m"])
        if not (fr(lv["u"]) == 0 and lv["u_via"] == "setter"):
            kw["u_probability"] = fl(lv["u"])
        else:
            kw["u_probability"] = 0.5       # replaced through the public setter after construction
    if lv["tf_col"] is not None:
        kw["tf_adjustment_column"] = lv["tf_col"]
        if not (fr(lv["w"]) == 0 and lv["w_via"] == "poke"):
            kw["tf_adjustment_weight"] = fl(lv["w"])
        if fr(lv["min_u"]) != 0:
            kw["tf_minimum_u_value"] = fl(lv["min_u"])
        if lv["disable"]:
            kw["disable_tf_exact_match_detection"] = True
    return c.configure(**kw)


def _level_dict(lv):
    """raw settings-dictionary form of a level (route 'dict')"""
    k = lv["kind"]
    x = lv["col"]
    if k == "null":
        d = {"sql_condition": f'"{x}_l" IS NULL OR "{x}_r" IS NULL', "is_null_level": True, "label_for_charts": "null"}
    elif k == "exact":
        d = {"sql_condition": f'"{x}_l" = "{x}_r"', "label_for_charts": "exact"}
    elif k == "lev":
        d = {"sql_condition": f'levenshtein("{x}_l", "{x}_r") <= {lv["arg"]}', "label_for_charts": f"lev{lv['arg']}"}
    elif k == "custom":
        d = {"sql_condition": lv["sql"], "label_for_charts": "custom"}
    else:
        d = {"sql_condition": "ELSE", "label_for_charts": "else"}
    if k != "null":
        d["m_probability"] = fl(lv["m"])
        d["u_probability"] = fl(lv["u"]) if not (fr(lv["u"]) == 0 and lv["u_via"] == "setter") else 0.5
    if lv["tf_col"] is not None:
        d["tf_adjustment_column"] = lv["tf_col"]
        if not (fr(lv["w"]) == 0 and lv["w_via"] == "poke"):
            d["tf_adjustment_weight"] = fl(lv["w"])
        if fr(lv["min_u"]) != 0:
            d["tf_minimum_u_value"] = fl(lv["min_u"])
        if lv["disable"]:
            d["disable_tf_exact_match_detection"] = True
    return d


def comparison_creators(spec, dialect="duckdb"):
    import splink.comparison_library as cl
    out = []
    for c in spec["comparisons"]:
        x = c["name"]
        nn = [lv for lv in c["levels"] if lv["kind"] != "null"]
        if c["route"] == "lib_fnsn":
            fn, sn = c["cols"]
            cc = cl.ForenameSurnameComparison(fn, sn, jaro_winkler_thresholds=c["jw"]).configure(
                m_probabilities=[fl(lv["m"]) for lv in nn], u_probabilities=[fl(lv["u"]) for lv in nn])
        elif c["route"] == "lib_exact":
            cc = cl.ExactMatch(x).configure(
                term_frequency_adjustments=any(lv["tf_col"] for lv in c["levels"]),
                m_probabilities=[fl(lv["m"]) for lv in nn],
                u_probabilities=[fl(lv["u"]) if not (fr(lv["u"]) == 0 and lv["u_via"] == "setter") else 0.5 for lv in nn])
        elif c["route"] == "lib_lev":
            ths = [lv["arg"] for lv in c["levels"] if lv["kind"] == "lev"]
            cc = cl.LevenshteinAtThresholds(x, ths).configure(
                term_frequency_adjustments=any(lv["tf_col"] for lv in c["levels"]),
                m_probabilities=[fl(lv["m"]) for lv in nn],
                u_probabilities=[fl(lv["u"]) if not (fr(lv["u"]) == 0 and lv["u_via"] == "setter") else 0.5 for lv in nn])
        elif c["route"] == "dict":
            cc = {"output_column_name": x, "comparison_levels": [_level_dict(lv) for lv in c["levels"]]}
        else:
            cc = cl.CustomComparison(output_column_name=x,
                                     comparison_levels=[_level_creator(lv, dialect) for lv in c["levels"]])
        out.append(cc)
    return out


def settings_creator(spec, blocking_rules=None, dialect="duckdb", retain=True):
    """retain=True: both retain_* flags on (the gamma_/bf_/tf_ columns can be read); retain=False: Splink's defaults
    (retain_matching_columns=True, retain_intermediate_calculation_columns=False) are left untouched"""
    from splink import SettingsCreator
    kw = {"retain_intermediate_calculation_columns": True, "retain_matching_columns": True} if retain else {}
    return SettingsCreator(
        link_type=spec["link_type"], comparisons=comparison_creators(spec, dialect),
        blocking_rules_to_generate_predictions=blocking_rules or ["1=1"],
        probability_two_random_records_match=fl(spec["prior"]), **kw)


def apply_setters(settings_obj, spec):
    """parameters that arrive after construction (as training does): public u setter; the
    weight-0 SQL branch is reached in the ordinary stream by assigning the level attribute."""
    for c, comp in zip(spec["comparisons"], settings_obj.comparisons):
        assert len(c["levels"]) == len(comp.comparison_levels), (c, comp.comparison_levels)
        for lv, lo in zip(c["levels"], comp.comparison_levels):
            if lv["kind"] in ("null",):
                continue
            if fr(lv["u"]) == 0 and lv["u_via"] == "setter":
                lo.u_probability = 0.0
            if lv["tf_col"] is not None and fr(lv["w"]) == 0 and lv["w_via"] == "poke":
                lo._tf_adjustment_weight = 0.0
