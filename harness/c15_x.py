"""C15 correspondence: the real accuracy functions of /repo on DuckDB / SQLite vs the Gallina
model of Model/Accuracy.v evaluated inside Coq, plus the property oracle (direct recount in
Python) used for the search and for the violation report.

Model input = the labelled pairs with the implementation's OWN scores (the rows of the CTE
`__splink__labels_with_predictions`, captured by wrapping the DatabaseAPI inside this harness;
floats converted exactly with Fraction), so no float arithmetic takes part in the comparison of
counts and thresholds.  Independent of the implementation: the labels (ours), the orientation
of each pair, record existence, and `found by the blocking rules` (= membership in a plain
predict() of a fresh linker).
"""
from __future__ import annotations

import copy
import math
from fractions import Fraction  # noqa: F401 (re-exported as X.Fraction)

import numpy as np
import pandas as pd

from harness import splink_util as su
from harness.common import Ctx, coq_bool, coq_list, coq_nat, coq_opt, coq_Q, coq_string, coq_Z

HEADER = r"""From Coq Require Import List Bool ZArith QArith Qabs Arith.
From Coq Require Strings.String.
Import String.StringSyntax.
From Splinkv Require Import Base.TV Base.GroupBy Base.CumSum Model.BlockAnalysis Model.Accuracy.
Import ListNotations.
Open Scope Z_scope.

(* an implementation row: threshold, [total;P;N;TP;TN;FP;FN] and the derived rates
   (name, tolerance, value or NULL); engine floats converted exactly *)
Record irow := { i_thr : Q; i_counts : list Q; i_rates : list (String.string * Q * option Q) }.

Definition close (tol x m : Q) : bool := Qle_bool (Qabs (x - m)) (tol * (1 + Qabs m)).
Definition sgn (x : Q) : Z := Z.sgn (Qnum x).
Definition rate_ok (t : trow) (nr : String.string * Q * option Q) : bool :=
  let '(name, tol, v) := nr in
  if String.eqb name "phi" then
    match aeval t phi_sq_def, v with
    | Some m, Some x =>
        close tol (x * x) m &&
        (Qeq_bool m 0 || Z.eqb (sgn x) (Z.sgn (TP t * TN t - FP t * FN t)))
    | None, None => true
    | _, _ => false
    end
  else
    match lookup_rate name rate_defs with
    | None => false
    | Some e =>
        match aeval t e, v with
        | Some m, Some x => close tol x m
        | None, None => true
        | _, _ => false
        end
    end.
Definition counts_of (t : trow) : list Z := [total t; P t; N t; TP t; TN t; FP t; FN t].
Fixpoint all2 {A B} (f : A -> B -> bool) (a : list A) (b : list B) : bool :=
  match a, b with
  | [], [] => true
  | x :: a', y :: b' => f x y && all2 f a' b'
  | _, _ => false
  end.
Definition row_ok (t : trow) (i : irow) : bool :=
  Qeq_bool (thr t) (i_thr i) &&
  all2 (fun z q => Qeq_bool (inject_Z z) q) (counts_of t) (i_counts i) &&
  forallb (rate_ok t) (i_rates i).
Definition table_ok (m : list trow) (impl : list irow) : bool := all2 row_ok m impl.

Fixpoint assoc2 {V} (d : V) (l r : nat) (tbl : list (nat * nat * V)) : V :=
  match tbl with
  | [] => d
  | (a, b, v) :: t => if Nat.eqb a l && Nat.eqb b r then v else assoc2 d l r t
  end.

Inductive case :=
| CTable (ta : Q) (rnd : option (Q * Q)) (recs : list nat)
         (labels : list (nat * nat * option Q)) (scores : list (nat * nat * Q))
         (foundl : list (nat * nat * bool)) (impl : list irow)
| CColumn (lt : clink) (counts : list Z) (nrules : nat) (ta : Q) (rnd : option (Q * Q)) (zu : bool)
          (preds : list (Q * option Z * option Z * nat)) (impl : list irow)
| CErrors (column_mode inc_fp inc_fn : bool) (t : Q) (rows : list (option Q * Q * bool))
          (impl : list (nat * nat)).

Definition st_code (column_mode : bool) (s : option status) : nat :=
  if column_mode then 0%nat else match s with None => 0%nat | Some StFP => 1%nat | Some StFN => 2%nat end.
Fixpoint number {A} (k : nat) (l : list A) : list (nat * A) :=
  match l with [] => [] | x :: t => (k, x) :: number (S k) t end.

Definition run_case (c : case) : bool :=
  match c with
  | CTable ta rnd recs labels scores foundl impl =>
      let ls := map (fun x => match x with (l, r, c) => {| id_l := l; id_r := r; cms := c |} end) labels in
      table_ok (truth_space_table_from_labels_table ta (rounding rnd)
                  (fun l r => assoc2 0%Q l r scores) (fun l r => assoc2 false l r foundl) recs ls) impl
  | CColumn lt counts nrules ta rnd zu preds impl =>
      let ps := map (fun x => match x with (s, a, b, k) =>
                  {| p_score := s; p_label_l := a; p_label_r := b; p_match_key := k |} end) preds in
      match truth_space_table_from_labels_column lt counts nrules ta (rounding rnd) zu ps with
      | Some m => table_ok m impl
      | None => false
      end
  | CErrors cm inc_fp inc_fn t rows impl =>
      let es := map (fun kx => match kx with (k, (c, p, f)) =>
                  {| e_key := k; e_cms := c; e_prob := p; e_found := f |} end) (number 0 rows) in
      let m := map (fun x => (e_key (fst x), st_code cm (snd x))) (prediction_errors cm inc_fp inc_fn t es) in
      all2 (fun a b => Nat.eqb (fst a) (fst b) && Nat.eqb (snd a) (snd b)) m impl
  end.
"""

RATE_NAMES = ["P_rate", "N_rate", "tp_rate", "tn_rate", "fp_rate", "fn_rate", "precision", "recall",
              "specificity", "npv", "accuracy", "f1", "f2", "f0_5", "p4", "phi"]
RATE_TOL = {"N_rate": Fraction(1, 10**6)}   # DuckDB computes cast(N as float)/total in 32-bit floats
DEFAULT_TOL = Fraction(1, 10**9)
COUNT_COLS = ["total_clerical_labels", "p", "n", "tp", "tn", "fp", "fn"]

ATOMS = ["l.a = r.a", "l.b = r.b", "l.c = r.c", "substr(l.a,1,1) = substr(r.a,1,1)", "l.a = r.b",
         "l.b = r.b and l.a = r.a", "l.c = r.c or l.b = r.b"]
DYADIC = [0.0, 0.25, 0.5, 0.75, 1.0]


# ---------------------------------------------------------------------------- generation
def gen_case(rng, backend, mode):
    lt = rng.choice(["dedupe_only", "link_only", "link_and_dedupe"])
    # (labels-table mode on SQLite link jobs works since /repo 4a90657c: lower_id_on_lhs no longer uses concat())
    ntab = 1 if lt == "dedupe_only" else rng.choice([2, 2, 3])
    names = ["ta", "tb", "tc"][:ntab]
    dom_a = ["x", "y", "xz", None]
    dom_b = ["p", "q", None]
    dom_c = ["u", "v", "w", "uv", None]
    tables = []
    for t in range(ntab):
        n = rng.randint(5, 9) if ntab == 1 else rng.randint(2, 5)
        ids = rng.sample(range(1, 13), n)          # ids overlap between tables; '10' < '9' as strings
        nlab = rng.choice([2, 3, 4])
        rows = [{"unique_id": i, "a": rng.choice(dom_a), "b": rng.choice(dom_b), "c": rng.choice(dom_c),
                 "lab": rng.choice(list(range(1, nlab + 1)) + [None])} for i in ids]
        if all(r["a"] is None for r in rows):
            rows[0]["a"] = "x"
        if all(r["b"] is None for r in rows):
            rows[0]["b"] = "p"
        if all(r["c"] is None for r in rows):
            rows[0]["c"] = "u"
        if all(r["lab"] is None for r in rows):
            rows[0]["lab"] = 1
        tables.append(rows)
    nrules = rng.choice([0, 1, 1, 2, 2, 3]) if mode == "table" else rng.choice([1, 1, 2, 2, 3])
    rules = rng.sample(ATOMS, nrules)
    comps = []
    for col in ("a", "b", "c"):
        kind = rng.choice(["exact", "exact", "lev"])
        m1 = rng.choice([0.9, 0.75, 0.95, 0.6, 0.8, 0.7])
        u1 = rng.choice([0.1, 0.25, 0.05, 0.4, 0.3, 0.15])
        if kind == "exact":
            comps.append({"kind": "exact", "col": col, "m": [m1, 1 - m1], "u": [u1, 1 - u1],
                          "tf": backend == "duckdb" and rng.random() < 0.2})
        else:
            m2 = (1 - m1) * 0.5
            u2 = (1 - u1) * 0.25
            comps.append({"kind": "lev", "col": col, "m": [m1, m2, 1 - m1 - m2], "u": [u1, u2, 1 - u1 - u2]})
    case = {"backend": backend, "link_type": lt, "names": names, "tables": tables, "rules": rules,
            "comparisons": comps, "prior": rng.choice([0.01, 0.1, 0.3, 0.5]), "mode": mode}
    rounds = [None, None, None, 0.25, 0.25, 0.5, 1.0, 2.0] + ([0.1, 0.1, 0.3] if backend == "duckdb" else [])
    case["round"] = rng.choice(rounds)
    recs = [(names[t], r["unique_id"]) for t in range(ntab) for r in tables[t]]
    k = rng.randint(3, 14)
    labels = []
    for _ in range(k):
        a, b = rng.sample(recs, 2)
        if lt == "link_only" and a[0] == b[0]:
            continue      # a link_only job never compares two records of one dataset: label outside the job
        cms = rng.choice([0.0, 0.0, 0.25, 0.5, 0.75, 1.0, 1.0, 1.0, None])
        labels.append({"l": list(a), "r": list(b), "cms": cms})
        if rng.random() < 0.12:                       # the same pair again, other orientation
            labels.append({"l": list(b), "r": list(a), "cms": rng.choice([0.0, 1.0, cms])})
    if rng.random() < 0.3 and labels:                 # a label for a record that does not exist
        labels.append({"l": labels[0]["l"], "r": [names[-1], 99], "cms": 1.0})
    if not labels:
        a = recs[0]
        b = next(r for r in reversed(recs) if lt != "link_only" or r[0] != a[0])
        labels.append({"l": list(b), "r": list(a), "cms": 1.0})
    case["labels"] = labels
    if mode == "table":
        case["ta"] = rng.choice([0.5, 0.5, 0.25, 0.75, 1.0, 0.0])
        case["zu"] = True
    else:
        case["ta"] = rng.choice([0.5, 0.5, 0.25, 1.0])
        case["zu"] = rng.random() < 0.7
    case["errors"] = {"inc_fp": True, "inc_fn": True, "t": rng.choice([0.5, 0.5, 0.25, 0.75, 0.0625])}
    w = rng.random()
    if w < 0.2:
        case["errors"]["inc_fp"] = False
    elif w < 0.4:
        case["errors"]["inc_fn"] = False
    # a history on ONE linker: the calls above, then a change of the model, then the calls again
    case["history"] = None
    if rng.random() < 0.5:
        kind = rng.choice(["mu", "mu", "prior", "prior_estimate", "estimate_u"])
        change = {"kind": kind, "comparison": rng.randrange(3), "level": 1, "m": rng.choice([0.55, 0.3, 0.97]),
                  "u": rng.choice([0.35, 0.02, 0.6]), "prior": rng.choice([0.02, 0.2, 0.7]),
                  "rule": rng.choice(ATOMS[:3]), "recall": rng.choice([0.5, 0.9]), "seed": rng.randrange(100)}
        mode2 = mode
        if rng.random() < 0.25:
            other = "column" if mode == "table" else "table"
            ok_other = (other == "column" and nrules >= 1) or (other == "table")
            mode2 = other if ok_other else mode
        second = {"mode": mode2, "round": rng.choice(rounds),
                  "ta": rng.choice([0.5, 0.25, 1.0]) if mode2 == "column" else rng.choice([0.5, 0.25, 0.75, 1.0, 0.0]),
                  "zu": True if mode2 == "table" else rng.random() < 0.7,
                  "errors": {"inc_fp": True, "inc_fn": True, "t": rng.choice([0.5, 0.25, 0.75])}}
        case["history"] = {"change": change, "second": second}
    return case


# ---------------------------------------------------------------------------- driving Splink
def frames_of(case):
    out = []
    for rows in case["tables"]:
        d = pd.DataFrame(rows, columns=["unique_id", "a", "b", "c", "lab"])
        for col in ("a", "b", "c"):
            d[col] = d[col].astype("string")
        d["lab"] = d["lab"].astype("Int64")
        out.append(d)
    return out


def settings_of(case, rules=None):
    import splink.comparison_library as cl
    from splink import SettingsCreator
    comps = []
    for c in case["comparisons"]:
        if c["kind"] == "exact":
            x = cl.ExactMatch(c["col"])
            kw = {"m_probabilities": c["m"], "u_probabilities": c["u"]}
            if c.get("tf"):
                kw["term_frequency_adjustments"] = True
            comps.append(x.configure(**kw))
        else:
            comps.append(cl.LevenshteinAtThresholds(c["col"], [1]).configure(
                m_probabilities=c["m"], u_probabilities=c["u"]))
    return SettingsCreator(link_type=case["link_type"], comparisons=comps,
                           blocking_rules_to_generate_predictions=list(case["rules"] if rules is None else rules),
                           probability_two_random_records_match=case["prior"],
                           retain_matching_columns=True, retain_intermediate_calculation_columns=False)


def make_linker(case):
    aliases = case["names"] if len(case["names"]) > 1 else None
    return su.linker(frames_of(case), settings_of(case), case["backend"], aliases=aliases)


def raw_query(api, sql):
    con = getattr(api, "_con", None) or getattr(api, "con")
    cur = con.execute(sql)
    cols = [d[0] for d in cur.description]
    return [dict(row) if isinstance(row, dict) else dict(zip(cols, row)) for row in cur.fetchall()]


def tap(api, wanted, store):
    """Capture the rows of intermediate CTEs named in `wanted` of every pipeline the
    implementation executes (same SQL text, truncated after that CTE)."""
    orig = api.sql_pipeline_to_splink_dataframe

    def wrapped(pipeline, use_cache=True):
        ctes = pipeline.ctes_pipeline()
        names = [c.output_table_name for c in ctes]
        for w in wanted:
            if w in names:
                k = names.index(w)
                pre = ", \n".join(f"{c.output_table_name} as ({c.sql})" for c in ctes[:k])
                sql = (f"WITH {pre} \n" if k else "") + ctes[k].sql
                store.setdefault(w, []).append(raw_query(api, sql))
        return orig(pipeline, use_cache)

    api.sql_pipeline_to_splink_dataframe = wrapped


def labels_frame(case):
    dedupe = case["link_type"] == "dedupe_only"
    rows = []
    for lb in case["labels"]:
        r = {} if dedupe else {"source_dataset_l": lb["l"][0]}
        r["unique_id_l"] = lb["l"][1]
        if not dedupe:
            r["source_dataset_r"] = lb["r"][0]
        r["unique_id_r"] = lb["r"][1]
        r["clerical_match_score"] = lb["cms"]
        rows.append(r)
    d = pd.DataFrame(rows)
    d["clerical_match_score"] = pd.array([r["clerical_match_score"] for r in rows], dtype="Float64")
    if case["backend"] == "sqlite":
        d["clerical_match_score"] = d["clerical_match_score"].astype(object).where(d["clerical_match_score"].notna(), None)
    return d


def pair_key(case, rec):
    """engine-side id expression of a record: the bare uid (dedupe) or concat(sds,'-__-',uid)"""
    if case["link_type"] == "dedupe_only":
        return int(rec[1])
    return f"{rec[0]}-__-{rec[1]}"


def row_ids(case, row):
    if case["link_type"] == "dedupe_only":
        return (case["names"][0], row["unique_id_l"]), (case["names"][0], row["unique_id_r"])
    return (row["source_dataset_l"], row["unique_id_l"]), (row["source_dataset_r"], row["unique_id_r"])


def predict_pairs(case):
    """pairs a plain predict() of a fresh linker scores (unordered), with their match_key"""
    if not case["rules"]:
        return None                                     # no rules: every admissible pair is found
    lk = make_linker(case)
    out = {}
    for r in lk.inference.predict().as_record_dict():
        a, b = row_ids(case, r)
        out[frozenset([a, b])] = int(r.get("match_key", 0))
    return out


def canon_float(x):
    if x is None:
        return None
    x = float(x)
    if math.isnan(x) or math.isinf(x):
        return None
    return x


def fresh_linker(case, model, rules):
    """a new linker on a new connection carrying the given (current) model"""
    d = copy.deepcopy(model)
    d["blocking_rules_to_generate_predictions"] = list(rules)
    d["retain_matching_columns"] = True
    aliases = case["names"] if len(case["names"]) > 1 else None
    return su.linker(frames_of(case), d, case["backend"], aliases=aliases)


def independent_oracles(case, model):
    """found-by-blocking and the scores of EVERY admissible pair under the current model, from
    plain predict() calls of fresh linkers (independent of the accuracy code and of any cache)"""
    found = None
    if case["rules"]:
        found = {}
        for r in fresh_linker(case, model, case["rules"]).inference.predict().as_record_dict():
            a, b = row_ids(case, r)
            found[frozenset([a, b])] = int(r.get("match_key", 0))
    scores = {}
    for r in fresh_linker(case, model, []).inference.predict().as_record_dict():
        a, b = row_ids(case, r)
        scores[frozenset([a, b])] = (r["match_weight"], r["match_probability"])
    return found, scores


def apply_change(lk, ch):
    """change the model of an existing linker (no invalidate_cache, as a user would)"""
    so = lk._settings_obj
    kind = ch["kind"]
    if kind == "prior_estimate":
        try:
            lk.training.estimate_probability_two_random_records_match([ch["rule"]], recall=ch["recall"])
            p = so._probability_two_random_records_match
            if not (0 < p < 1):
                raise ValueError("degenerate prior")
            return "prior_estimate"
        except Exception:
            kind = "prior"
    if kind == "estimate_u":
        try:
            lk.training.estimate_u_using_random_sampling(max_pairs=2000, seed=ch["seed"])
            for c in so.comparisons:
                for lv in c.comparison_levels:
                    if lv.is_null_level:
                        continue
                    for attr in ("m_probability", "u_probability"):
                        v = getattr(lv, attr)
                        if not isinstance(v, (int, float)) or not (0 < v < 1):
                            setattr(lv, attr, 0.3)
            return "estimate_u"
        except Exception:
            kind = "mu"
    if kind == "prior":
        so.core_model_settings.probability_two_random_records_match = ch["prior"]
        return "prior"
    comp = so.comparisons[ch["comparison"] % len(so.comparisons)]
    lv = [x for x in comp.comparison_levels if not x.is_null_level][0]
    lv.m_probability = ch["m"]
    lv.u_probability = ch["u"]
    return "mu"


def one_call(lk, case, store, labels_table):
    res = {}
    er = case["errors"]
    if case["mode"] == "table":
        tab = lk.evaluation.accuracy_analysis_from_labels_table(
            labels_table, threshold_match_probability=case["ta"], match_weight_round_to_nearest=case["round"],
            output_type="table").as_record_dict()
        res["lwp"] = store["__splink__labels_with_predictions"][-1]
        errs = lk.evaluation.prediction_errors_from_labels_table(
            labels_table, include_false_positives=er["inc_fp"], include_false_negatives=er["inc_fn"],
            threshold_match_probability=er["t"]).as_record_dict()
        res["lwp_err"] = store["__splink__labels_with_predictions"][-1]
    else:
        tab = lk.evaluation.accuracy_analysis_from_labels_column(
            "lab", threshold_match_probability=case["ta"], match_weight_round_to_nearest=case["round"],
            output_type="table",
            positives_not_captured_by_blocking_rules_scored_as_zero=case["zu"]).as_record_dict()
        res["lwp"] = store["__splink__labels_with_predictions"][-1]
        errs = lk.evaluation.prediction_errors_from_labels_column(
            "lab", include_false_positives=er["inc_fp"], include_false_negatives=er["inc_fn"],
            threshold_match_probability=er["t"]).as_record_dict()
        res["lwp_err"] = store["__splink__predictions_from_label_column"][-1]
    res["table"] = sorted(tab, key=lambda r: r["truth_threshold"])
    res["errors"] = errs
    res["model"] = lk.misc.save_model_to_json()
    res["found_oracle"], res["score_oracle"] = independent_oracles(case, res["model"])
    return res


def run_history(case):
    """-> [(case_i, result_i)]: the accuracy calls of `case` on one linker, and - if the case has
    a history - the calls again after the model was changed on that same linker."""
    lk = make_linker(case)
    store = {}
    tap(lk._db_api, ["__splink__labels_with_predictions", "__splink__predictions_from_label_column"], store)
    needs_table = case["mode"] == "table" or (case.get("history") and case["history"]["second"]["mode"] == "table")
    lt = lk.table_management.register_labels_table(labels_frame(case)) if needs_table else None
    out = [(case, one_call(lk, case, store, lt))]
    h = case.get("history")
    if h:
        applied = apply_change(lk, h["change"])
        case2 = dict(case, **h["second"])
        case2["history"] = None
        case2["step"] = {"after_change": applied}
        out.append((case2, one_call(lk, case2, store, lt)))
    return out


def run_impl(case):
    """single-call form (used by the shrinker): the LAST call of the history"""
    return run_history(case)[-1][1]


# ---------------------------------------------------------------------------- specification side
def round_half_away(x: Fraction) -> int:
    return math.floor(x + Fraction(1, 2)) if x >= 0 else math.ceil(x - Fraction(1, 2))


def rounding_params(r):
    if r is None:
        return None
    return Fraction(float(np.float32(r))), Fraction(float(r))


def rnd_score(case, x: Fraction) -> Fraction:
    rp = rounding_params(case["round"])
    if rp is None:
        return x
    return rp[0] * round_half_away(x / rp[1])


def near_rounding_boundary(case, scores):
    rp = rounding_params(case["round"])
    if rp is None:
        return False
    dy = float(case["round"])
    if math.log2(dy) == int(math.log2(dy)):
        return False                                    # dyadic: engine arithmetic exact
    for s in scores:
        q = s / rp[1]
        if abs((q - math.floor(q)) - Fraction(1, 2)) < Fraction(1, 10**6):
            return True
    return False


def is_pos(case, cms):
    return cms is not None and Fraction(cms) >= Fraction(case["ta"])


def all_records(case):
    return [(case["names"][t], r["unique_id"], r) for t in range(len(case["tables"])) for r in case["tables"][t]]


def admissible_pairs(case):
    recs = all_records(case)
    out = []
    for i in range(len(recs)):
        for j in range(i + 1, len(recs)):
            if case["link_type"] == "link_only" and recs[i][0] == recs[j][0]:
                continue
            out.append((recs[i], recs[j]))
    return out


def spec_rows(case, res):
    """The labelled pairs as the PROPERTY sees them, independent of the implementation except
    for the score: list of dict(pair, score, cms, found) (+ number of implicit negatives)."""
    lwp = res["lwp"]
    so = res["score_oracle"]
    problems = []
    score_of = {}
    for r in lwp:
        a, b = row_ids(case, r)
        key = frozenset([a, b])
        if key in so and abs(so[key][0] - r["match_weight"]) <= 1e-9 * (1 + abs(so[key][0])):
            score_of.setdefault(key, Fraction(r["match_weight"]))     # the implementation's float is the canonical one
    for key, (mw, _) in so.items():
        score_of.setdefault(key, Fraction(mw))                         # otherwise: the current model's score
    fo = res["found_oracle"]
    rows = []
    if case["mode"] == "table":
        existing = {(n, u) for n, u, _ in all_records(case)}
        for lb in case["labels"]:
            a, b = tuple(lb["l"]), tuple(lb["r"])
            if a not in existing or b not in existing:
                continue
            key = frozenset([a, b])
            if key not in score_of:
                problems.append(f"labelled pair {sorted(key)} has no scored row")
                continue
            rows.append({"pair": key, "score": score_of[key], "cms": lb["cms"],
                         "found": True if fo is None else key in fo})
        ghosts = 0
    else:
        ghosts = 0
        for ra, rb in admissible_pairs(case):
            key = frozenset([(ra[0], ra[1]), (rb[0], rb[1])])
            same = ra[2]["lab"] is not None and ra[2]["lab"] == rb[2]["lab"]
            found = key in fo
            if found or same:
                if key not in score_of:
                    problems.append(f"pair {sorted(key)} (found={found}, same label={same}) has no scored row")
                    continue
                rows.append({"pair": key, "score": score_of[key], "cms": 1.0 if same else 0.0, "found": found})
            else:
                ghosts += 1
    return rows, ghosts, problems


def adj(case, row):
    if case["zu"] and not row["found"]:
        return Fraction(-999)
    return rnd_score(case, row["score"])


def recount(case, rows, ghosts, t: Fraction):
    tp = sum(1 for r in rows if is_pos(case, r["cms"]) and adj(case, r) >= t)
    fp = sum(1 for r in rows if not is_pos(case, r["cms"]) and adj(case, r) >= t)
    fn = sum(1 for r in rows if is_pos(case, r["cms"]) and adj(case, r) < t)
    tn = sum(1 for r in rows if not is_pos(case, r["cms"]) and adj(case, r) < t) + ghosts
    return {"total_clerical_labels": len(rows) + ghosts, "p": tp + fn, "n": tn + fp, "tp": tp, "tn": tn, "fp": fp, "fn": fn}


def spec_rate(name, c):
    """documented definition of a derived rate on exact counts; None = undefined (x/0)"""
    TP, TN, FP, FN, P, N, T = (Fraction(c[k]) for k in ("tp", "tn", "fp", "fn", "p", "n", "total_clerical_labels"))

    def div(a, b):
        return None if b == 0 else a / b
    d = {
        "P_rate": lambda: div(P, T), "N_rate": lambda: div(N, T), "tp_rate": lambda: div(TP, P),
        "tn_rate": lambda: div(TN, N), "fp_rate": lambda: div(FP, N), "fn_rate": lambda: div(FN, P),
        "precision": lambda: Fraction(1) if TP + FP == 0 else TP / (TP + FP), "recall": lambda: div(TP, P),
        "specificity": lambda: div(TN, N), "npv": lambda: Fraction(1) if TN + FN == 0 else TN / (TN + FN),
        "accuracy": lambda: div(TP + TN, P + N), "f1": lambda: div(2 * TP, 2 * TP + FN + FP),
        "f2": lambda: div(5 * TP, 5 * TP + 4 * FN + FP),
        "f0_5": lambda: div(Fraction(5, 4) * TP, Fraction(5, 4) * TP + Fraction(1, 4) * FN + FP),
        "p4": lambda: div(4 * TP * TN, 4 * TP * TN + (TP + TN) * (FP + FN)),
    }
    return d[name]()


def oracle(case, res):
    """Property oracle on the implementation output.  -> list of (kind, column, detail)"""
    rows, ghosts, problems = spec_rows(case, res)
    bad = [("pairs", None, p) for p in problems]
    # the implementation's own view of each labelled pair must agree with the independent one
    fo = res["found_oracle"]
    so = res["score_oracle"]
    for which in ("lwp", "lwp_err"):
        for r in res[which]:
            key = frozenset(row_ids(case, r))
            if key not in so:
                continue
            mw, mp = so[key]
            if abs(mw - r["match_weight"]) > 1e-9 * (1 + abs(mw)) or abs(mp - r["match_probability"]) > 1e-9:
                bad.append(("stale_scores", None, f"pair {sorted(key)} is scored match_weight={r['match_weight']} match_probability={r['match_probability']} "
                            f"but the current model scores it {mw} / {mp}"))
                break
    labs = label_of(case)
    for r in res["lwp"]:
        a, b = row_ids(case, r)
        key = frozenset([a, b])
        if case["mode"] == "column" and canon_float(r["clerical_match_score"]) != independent_cms(case, r, labs):
            bad.append(("clerical", None, f"pair {sorted(key)} with labels {labs.get(a)!r}, {labs.get(b)!r} has clerical_match_score "
                        f"{r['clerical_match_score']!r}; the label column defines {independent_cms(case, r, labs)}"))
        f_impl = bool(r["found_by_blocking_rules"])
        f_spec = True if fo is None else key in fo
        if f_impl != f_spec:
            bad.append(("found_flag", None, f"pair {sorted(key)}: found_by_blocking_rules={f_impl}, predict() {'scores' if f_spec else 'does not score'} it"))
        if pair_key(case, a) >= pair_key(case, b):
            bad.append(("orientation", None, f"pair {a},{b}: lower id is not on the left"))
    if case["mode"] == "table":
        want = sorted(((sorted(map(str, r["pair"])), None if r["cms"] is None else float(r["cms"])) for r in rows), key=str)
        got = sorted(((sorted(map(str, row_ids(case, r))), canon_float(r["clerical_match_score"])) for r in res["lwp"]), key=str)
        if want != got:
            bad.append(("pairs", None, f"labelled pairs scored by the implementation {got} differ from the labels joined to the records {want}"))
    else:
        want = sorted(sorted(map(str, r["pair"])) for r in rows)
        got = sorted(sorted(map(str, row_ids(case, r))) for r in res["lwp"])
        if want != got:
            bad.append(("pairs", None, "pairs scored for the label column differ from (found by rules) U (same label)"))
    # (which thresholds are listed is not part of the property: the Coq correspondence compares
    #  the row sets; here every LISTED row is recounted)
    prev = None
    for r in res["table"]:
        t = Fraction(r["truth_threshold"])
        c = recount(case, rows, ghosts, t)
        for k in COUNT_COLS:
            if Fraction(r[k]) != c[k]:
                bad.append(("counts", k, f"threshold {float(t)}: {k}={r[k]} recount={c[k]}"))
        if r["tp"] + r["fn"] != r["p"] or r["tn"] + r["fp"] != r["n"] or r["p"] + r["n"] != r["total_clerical_labels"]:
            bad.append(("conservation", None, f"threshold {float(t)}: {[r[k] for k in COUNT_COLS]}"))
        if prev is not None and (r["tp"] > prev["tp"] or r["fp"] > prev["fp"]):
            bad.append(("monotone", None, f"threshold {float(t)}: TP/FP increase"))
        prev = r
        cc = {k: Fraction(r[k]) for k in COUNT_COLS}     # rates are judged on the reported counts
        for name in RATE_NAMES:
            if name not in r:
                bad.append(("rates", name, "column missing"))
                continue
            v = canon_float(r[name])
            tol = float(RATE_TOL.get(name, DEFAULT_TOL))
            if name == "phi":
                TP, TN, FP, FN, P, N = (cc[k] for k in ("tp", "tn", "fp", "fn", "p", "n"))
                if TN + FN == 0 or TP + FP == 0 or P == 0 or N == 0:
                    s = 0.0
                else:
                    s = float(TP * TN - FP * FN) / math.sqrt(float((TP + FP) * P * N * (TN + FN)))
            else:
                s = spec_rate(name, cc)
                s = None if s is None else float(s)
            if (v is None) != (s is None) or (v is not None and abs(v - s) > tol * (1 + abs(s))):
                kind = "rates"
                if v is not None and s is not None and v == math.floor(s):
                    kind = "integer_division"
                bad.append((kind, name, f"threshold {float(t)}: {name}={v} definition gives {s} on counts {[r[k] for k in COUNT_COLS]}"))
        mp = 2.0 ** r["truth_threshold"] / (1 + 2.0 ** r["truth_threshold"])
        if abs(r["match_probability"] - mp) > 1e-9:
            bad.append(("rates", "match_probability", f"threshold {float(t)}: {r['match_probability']} vs {mp}"))
    bad += oracle_errors(case, res)
    return bad


def label_of(case):
    return {(n, u): r["lab"] for n, u, r in all_records(case)}


def independent_cms(case, row, labs=None):
    """clerical score of a scored pair as the PROPERTY defines it.  Label-column mode: 1.0 iff both
    records carry the same non-NULL label, else 0.0 (a NULL-labelled record matches nothing) - from
    our own data, not from the implementation's column.  Labels-table mode: the supplied score (the
    joined label rows are cross-checked against our label table by the `pairs` check)."""
    if case["mode"] != "column":
        return canon_float(row["clerical_match_score"])
    labs = labs or label_of(case)
    a, b = row_ids(case, row)
    la, lb = labs.get(a), labs.get(b)
    return 1.0 if (la is not None and la == lb) else 0.0


def error_universe(case, res):
    """The labelled pairs prediction_errors must decide about, built INDEPENDENTLY of the implementation's
    CTE: labels-table mode = our label rows joined to the records; label-column mode = admissible pairs
    found by a plain predict() or sharing a non-NULL label.  Clerical score and found flag are ours; the
    match probability is the current model's (the implementation's own float when it agrees to 1e-9)."""
    rows, _, problems = spec_rows(case, res)
    so = res["score_oracle"]
    own = {}
    for r in res["lwp_err"]:
        own.setdefault(frozenset(row_ids(case, r)), r["match_probability"])
    out = []
    for r in rows:
        key = r["pair"]
        mp = so[key][1] if key in so else None
        if key in own and (mp is None or abs(own[key] - mp) <= 1e-9):
            mp = own[key]
        if mp is None:
            problems.append(f"pair {sorted(key)} has no score under the current model")
            continue
        out.append({"pair": key, "cms": None if r["cms"] is None else float(r["cms"]), "mp": Fraction(mp), "found": r["found"]})
    out.sort(key=lambda r: (str(sorted(map(str, r["pair"]))), str(r["cms"])))
    return out, problems


def oracle_errors(case, res):
    er = case["errors"]
    t = Fraction(er["t"])
    col = case["mode"] == "column"
    uni, problems = error_universe(case, res)
    out = [("pairs", None, p) for p in problems]
    # the pairs the implementation decides about must be exactly that universe
    want_pairs = sorted(sorted(map(str, r["pair"])) for r in uni)
    got_pairs = sorted(sorted(map(str, row_ids(case, r))) for r in res["lwp_err"])
    if want_pairs != got_pairs:
        missing = [p for p in want_pairs if p not in got_pairs][:3]
        extra = [p for p in got_pairs if p not in want_pairs][:3]
        out.append(("pairs", None, f"prediction_errors decides about {len(got_pairs)} pairs but the labelled pairs are {len(want_pairs)} "
                    f"(missing e.g. {missing}, extra e.g. {extra})"))
    if col:
        labs = label_of(case)
        for r in res["lwp_err"]:
            if canon_float(r["clerical_match_score"]) != independent_cms(case, r, labs):
                a, b = row_ids(case, r)
                out.append(("clerical", None, f"pair {sorted([a, b])} with labels {labs.get(a)!r}, {labs.get(b)!r} has clerical_match_score "
                            f"{r['clerical_match_score']!r}; the label column defines {independent_cms(case, r, labs)}"))
                break
    want = []
    for r in uni:
        cms, mp, found = r["cms"], r["mp"], r["found"]
        fp = cms is not None and Fraction(cms) < t and mp > t
        fn = cms is not None and Fraction(cms) > t and (mp < t or (col and not found))
        if (er["inc_fp"] and fp) or (er["inc_fn"] and fn):
            want.append((sorted(map(str, r["pair"])), cms, None if col else ("FP" if fp else "FN")))
    labs = label_of(case)
    got = []
    for r in res["errors"]:
        got.append((sorted(map(str, row_ids(case, r))), independent_cms(case, r, labs),
                    None if col else r.get("truth_status")))
    if sorted(want, key=str) != sorted(got, key=str):
        out.append(("errors", None, f"prediction errors (include_false_positives={er['inc_fp']}, include_false_negatives={er['inc_fn']}, "
                    f"threshold {er['t']}) returned {sorted(got, key=str)} expected {sorted(want, key=str)}"))
    return out


# ---------------------------------------------------------------------------- Coq terms
def irow_term(r):
    rates = []
    for name in RATE_NAMES:
        if name in r:
            v = canon_float(r[name])
            rates.append(f"({coq_string(name)}, {coq_Q(RATE_TOL.get(name, DEFAULT_TOL))}, {coq_opt(v, lambda x: coq_Q(Fraction(x)))})")
        else:
            rates.append(f"({coq_string(name)}, {coq_Q(DEFAULT_TOL)}, None)")
    counts = coq_list([coq_Q(Fraction(r[k])) for k in COUNT_COLS])
    return f"{{| i_thr := {coq_Q(Fraction(r['truth_threshold']))}; i_counts := {counts}; i_rates := {coq_list(rates)} |}}"


def rnd_term(case):
    rp = rounding_params(case["round"])
    return "None" if rp is None else f"(Some ({coq_Q(rp[0])}, {coq_Q(rp[1])}))"


def table_term(case, res):
    keys = {}
    for n, u, _ in all_records(case):
        keys[(n, u)] = pair_key(case, (n, u))
    for lb in case["labels"]:
        for side in ("l", "r"):
            keys[tuple(lb[side])] = pair_key(case, tuple(lb[side]))
    for r in res["lwp"]:
        for x in row_ids(case, r):
            keys.setdefault(x, pair_key(case, x))
    order = sorted(keys, key=lambda k: keys[k])
    if len({keys[k] for k in order}) != len(order):
        raise ValueError("composite ids are not injective")
    rank = {k: i for i, k in enumerate(order)}
    recs = coq_list([coq_nat(rank[(n, u)]) for n, u, _ in all_records(case)], "nat")
    labels = coq_list([f"({coq_nat(rank[tuple(lb['l'])])}, {coq_nat(rank[tuple(lb['r'])])}, "
                       f"{coq_opt(lb['cms'], lambda x: coq_Q(Fraction(x)))})" for lb in case["labels"]],
                      "(nat * nat * option Q)")
    scores, seen = [], set()
    for r in res["lwp"]:
        a, b = row_ids(case, r)
        if (a, b) in seen:
            continue
        seen.add((a, b))
        scores.append(f"({coq_nat(rank[a])}, {coq_nat(rank[b])}, {coq_Q(Fraction(r['match_weight']))})")
    fo = res["found_oracle"]
    found = []
    for (a, b) in sorted(seen, key=str):
        f = True if fo is None else frozenset([a, b]) in fo
        # independent orientation: lower engine-side id first
        lo, hi = (a, b) if keys[a] < keys[b] else (b, a)
        found.append(f"({coq_nat(rank[lo])}, {coq_nat(rank[hi])}, {coq_bool(f)})")
    impl = coq_list([irow_term(r) for r in res["table"]], "irow")
    return (f"(CTable {coq_Q(Fraction(case['ta']))} {rnd_term(case)} {recs} {labels} "
            f"{coq_list(scores, '(nat * nat * Q)')} {coq_list(found, '(nat * nat * bool)')} {impl})")


def column_term(case, res):
    lt = {"dedupe_only": "CDedupe", "link_only": "CLinkOnly", "link_and_dedupe": "CLinkAndDedupe"}[case["link_type"]]
    counts = coq_list([coq_Z(len(t)) for t in case["tables"]], "Z")
    preds = []
    for r in res["lwp"]:
        preds.append(f"({coq_Q(Fraction(r['match_weight']))}, {coq_opt(r['lab_l'], coq_Z)}, "
                     f"{coq_opt(r['lab_r'], coq_Z)}, {coq_nat(int(r['match_key']))})")
    impl = coq_list([irow_term(r) for r in res["table"]], "irow")
    return (f"(CColumn {lt} {counts} {coq_nat(len(case['rules']))} {coq_Q(Fraction(case['ta']))} {rnd_term(case)} "
            f"{coq_bool(case['zu'])} {coq_list(preds, '(Q * option Z * option Z * nat)')} {impl})")


def errors_term(case, res):
    er = case["errors"]
    col = case["mode"] == "column"
    uni, _ = error_universe(case, res)                 # independent of the implementation's CTE
    terms = [f"({coq_opt(r['cms'], lambda x: coq_Q(Fraction(x)))}, {coq_Q(r['mp'])}, {coq_bool(r['found'])})" for r in uni]
    # map each returned row to the index of a universe row with the same ids (and clerical score if possible)
    labs = label_of(case)
    used = set()
    impl = []
    for e in res["errors"]:
        key = frozenset(row_ids(case, e))
        cms = independent_cms(case, e, labs)
        cand = [i for i, r in enumerate(uni) if i not in used and r["pair"] == key]
        idx = next((i for i in cand if uni[i]["cms"] == cms), cand[0] if cand else None)
        if idx is None:
            idx = len(uni) + 7 + len(impl)           # an index the model can never produce
        used.add(idx)
        code = 0 if col else {"FP": 1, "FN": 2}.get(e.get("truth_status"), 0)
        impl.append((idx, code))
    impl.sort()
    impl_t = coq_list([f"({coq_nat(i)}, {coq_nat(c)})" for i, c in impl], "(nat * nat)")
    return (f"(CErrors {coq_bool(col)} {coq_bool(er['inc_fp'])} {coq_bool(er['inc_fn'])} {coq_Q(Fraction(er['t']))} "
            f"{coq_list(terms, '(option Q * Q * bool)')} {impl_t})")


def case_terms(case, res):
    main = table_term(case, res) if case["mode"] == "table" else column_term(case, res)
    return [main, errors_term(case, res)]


# ---------------------------------------------------------------------------- shrinking
def shrink(case, fails):
    """greedy: drop labels (table mode) / records (column mode) / rules while `fails` holds"""
    best = case
    budget = 40

    def candidates(c):
        if c["mode"] == "table":
            for i in range(len(c["labels"])):
                if len(c["labels"]) > 1:
                    d = copy.deepcopy(c)
                    del d["labels"][i]
                    yield d
        for i in range(len(c["rules"])):
            if len(c["rules"]) > (1 if c["mode"] == "column" else 0):
                d = copy.deepcopy(c)
                del d["rules"][i]
                yield d
        for t in range(len(c["tables"])):
            for i in range(len(c["tables"][t])):
                if len(c["tables"][t]) > 1:
                    d = copy.deepcopy(c)
                    del d["tables"][t][i]
                    yield d
    progress = True
    while progress and budget > 0:
        progress = False
        for d in candidates(best):
            budget -= 1
            if budget <= 0:
                break
            try:
                if fails(d):
                    best = d
                    progress = True
                    break
            except Exception:
                continue
    return best


def describe_nontrivial(case, res):
    thr = [r["truth_threshold"] for r in res["table"]]
    lwp = res["lwp"]
    n_unfound = sum(1 for r in lwp if not r["found_by_blocking_rules"])
    ties = len(lwp) - len({r["match_weight"] for r in lwp})
    pos = sum(1 for r in res["table"][:1] for _ in range(int(r["p"])))
    return {"rows": len(thr), "pairs": len(lwp), "unfound": n_unfound, "score_ties": ties, "positives": pos}
