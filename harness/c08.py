"""C08  A failing call leaves the model and later results untouched.

 P  Properties/C08.v: the atomicity checker `atomicb` over effect traces is sound for every
    oracle (path), every fault point and every user-level raise (C08_atomicb_sound, per field
    C08_leaks_sound); the pinned shapes of the three defective operations are refuted.
 T  translators/c08_effects.py regenerates the trace of every public operation from /repo's
    source; `atomicb trace_op` is evaluated by the kernel VM for each of them.
 X  harness/c08_x.py: exhaustive fault injection on the real code (DuckDB, SQLite subset):
    for every SQL statement an operation issues, a fresh linker on which exactly that
    statement raises; property oracle = pre-call snapshot; the Coq model's `run_case` must
    predict the failure site and the same per-field changed/unchanged pattern; later
    predict() (+1 op) must equal a reference linker that never made the failed call.
"""
from __future__ import annotations

import json
import os
import re
import time

from harness.common import Ctx, REPO, coq_list, git_blob
from translators import c08_effects as T

HEADER0 = """From Coq Require Import List Bool ZArith Arith.
From Splinkv Require Import Model.Atomic.
Import ListNotations.
"""


def header_for(traces):
    lines = [HEADER0]
    for op, t in traces.items():
        if isinstance(t, T.Trace):
            lines.append(f"Definition p_{op} : prog := {T.to_coq(t.prog)}.")
    return "\n".join(lines) + "\n"


def trace_stage(ctx: Ctx):
    ix, traces = T.translate_all(REPO)
    ok_ops = [op for op, t in traces.items() if isinstance(t, T.Trace)]
    for op, t in traces.items():
        if not isinstance(t, T.Trace):
            ctx.obligation(f"translate effect trace of {op}", False, str(t))
        else:
            ctx.obligation(f"translate effect trace of {op}", True)
    header = header_for(traces)
    bad, errs = ctx.eval_cases("C08_atomic", header, [f"p_{op}" for op in ok_ops], "atomicb", shard=50, timeout=300)
    for e in errs:
        ctx.obligation("atomicb evaluation", False, e)
    nonatomic = [ok_ops[i] for i in bad]
    for op in ok_ops:
        ctx.obligation(f"atomicb trace_{op} = true", op not in nonatomic and not errs)
    leaks = {}
    if nonatomic:
        txt = header + "Eval vm_compute in (" + coq_list([f"leaks p_{op}" for op in nonatomic]) + ").\n"
        ok, out = ctx.coqc_text("C08_leaks", txt, timeout=120)
        m = re.search(r"=\s*(\[.*\])\s*:", out.replace("\n", " "))
        if ok and m:
            groups = re.findall(r"\[([^\[\]]*)\]", m.group(1))
            for op, g in zip(nonatomic, groups):
                leaks[op] = [x.strip() for x in g.split(";") if x.strip()]
    ctx.cov["translated_sources"] = {p: git_blob(REPO / p) for p in T.FILES}
    ctx.cov["trace_obligations"] = {"operations": len(traces), "translated": len(ok_ops), "atomic": len(ok_ops) - len(nonatomic),
                                   "not_atomic": {op: leaks.get(op, "?") for op in nonatomic},
                                   "untranslatable": {op: str(t) for op, t in traces.items() if not isinstance(t, T.Trace)}}
    unknown = sorted({u for t in traces.values() if isinstance(t, T.Trace) for u in t.unknown_calls})
    ctx.cov["unclassified_calls_treated_as_Mut_unknown"] = unknown
    sizes = {op: len(T.to_coq(t.prog)) for op, t in traces.items() if isinstance(t, T.Trace)}
    ctx.cov["trace_term_bytes"] = sizes
    return ix, traces, header, nonatomic, leaks


def plan(ctx: Ctx):
    """[(config, scenario filter, stride)]"""
    from harness import c08_x as X
    rng = ctx.rng
    out = []
    if ctx.quick:
        a = X.gen_config(rng, "duckdb", "dedupe_only", False, 0)
        out.append((a, lambda sc: not sc["needs_retain"], 1))
        b = X.gen_config(rng, "duckdb", "dedupe_only", True, 1)
        out.append((b, lambda sc: sc["needs_retain"] or sc["name"] in ("compare_two", "find_matches", "em"), 2))
        c = X.gen_config(rng, "duckdb", "link_only", False, 2)
        out.append((c, lambda sc: sc["name"] in ("estimate_u", "em", "predict", "find_matches", "cluster", "cluster_best_links",
                                                 "m_pairwise", "U:em_no_pairs", "U:find_matches_missing_columns"), 3))
        d = X.gen_config(rng, "sqlite", "dedupe_only", False, 3)
        out.append((d, lambda sc: sc["name"] in ("estimate_u", "em", "predict", "find_matches", "compare_two", "m_label",
                                                 "U:em_no_pairs", "U:compare_two_missing_columns"), 2))
    else:
        i = 0
        for backend in ("duckdb", "sqlite"):
            for lt in ("dedupe_only", "link_only"):
                for retain in (False, True):
                    for _rep in range(2 if (backend, lt) == ("duckdb", "dedupe_only") else 1):
                        out.append((X.gen_config(rng, backend, lt, retain, i), lambda sc: True, 1))
                        i += 1
    return out


def run(ctx: Ctx):
    ctx.cov["rule"] = ("T: one obligation `atomicb trace_op = true` per public operation, trace regenerated from the source. "
                       "X: configuration (seeded rows, m/u/prior grid, prefix ops, link type, retain flags, backend) x scenario "
                       "(operation + arguments) x fault point k in 1..N (N = statements the operation issues; quick tier strides "
                       "long lists on the secondary configurations) + user-level failures; a case is non-trivial when the call "
                       "really raised; distinct by (configuration, scenario, k).")
    ctx.trusted += [
        "translators/c08_effects.py: alias tracking limited to the fixed list of inlined callees; calls in SQL_NAMES / PURE_NAMES "
        "are trusted not to write the settings they are handed (checked by X on every exercised path: each executed statement "
        "must map to a Sql site, the post-failure state is diffed field by field)",
        "harness X: failure points are the backend's _execute_sql_against_backend calls (SQLite's direct cursor use in "
        "as_record_dict/drop is not interceptable) and the listed user-level failures; failures inside pandas/JSON code are not covered",
        "modelled not verified: Python evaluation order / try-finally semantics as in Model/Atomic.v `run`",
    ]
    ok = ctx.proof_stage("Properties/C08.v")
    if not ok:
        ctx.violation("theorems of Properties/C08.v no longer check", {"broken": "Properties/C08.v"}, found_input=False)
    ix, traces, header, nonatomic, leaks = trace_stage(ctx)
    ctx.log(f"traces: {len(traces)} operations, not atomic: { {op: leaks.get(op) for op in nonatomic} }")

    from harness import c08_x as X
    R = X.Runner(ctx, ix, traces)
    if ctx.replay:
        rp = json.loads(open(ctx.replay).read())
        cfg = dict(rp["config"], rows=rp["rows"])
        sc = R.S[rp["scenario"]]
        k = rp["fault_point_k"]
        ctx.log(f"replaying {sc['name']} on {cfg['id']} at fault point {k}")
        if k == "user":
            R.run_scenario(cfg, sc)
        else:
            R.run_scenario(cfg, sc, stride=10 ** 9, offset=int(k) - 1)
    else:
        for cfg, flt, stride in plan(ctx):
            t0 = time.time()
            n0 = ctx.cov["evaluations"]
            only = os.environ.get("C08_SCENARIOS")          # development aid: restrict the scenarios
            for name, sc in R.S.items():
                if not flt(sc) or cfg["backend"] not in sc["backends"]:
                    continue
                if only and name not in only.split(","):
                    continue
                if sc["needs_retain"] and not cfg["retain"]:
                    continue
                if sc["link_types"] and cfg["link_type"] not in sc["link_types"]:
                    continue
                off = ctx.rng.randrange(stride) if stride > 1 else 0
                R.run_scenario(cfg, sc, stride=stride, offset=off)
            ctx.hist("configuration", f"{cfg['backend']}/{cfg['link_type']}/retain={cfg['retain']}/prefix={'+'.join(cfg['prefix']) or '-'}")
            ctx.log(f"config {cfg['id']}: {ctx.cov['evaluations'] - n0} fault runs in {time.time() - t0:.1f}s")

    # ---- model vs real, inside Coq
    runner = "fun c => match c with (p, o, k, e, v, s, r) => run_case p o k e v s r end"
    terms = [c["term"] for c in R.cases]
    bad, errs = ctx.eval_cases("C08_x", header, terms, runner, shard=150, timeout=600) if terms else ([], [])
    for e in errs:
        ctx.log(e[-1500:])
    ctx.obligation("correspondence: model run_case agrees with the real post-failure state on every fault point", not bad and not errs,
                   f"{len(bad)} of {len(terms)} disagree")
    ctx.obligation("every executed SQL statement maps to a Sql site of the regenerated trace", not R.stats["unmapped_statements"],
                   json.dumps(R.stats["unmapped_statements"][:5]))
    ctx.cov["model_cases_evaluated_in_coq"] = len(terms)
    ctx.cov["fault_points"] = R.stats["fault_points"]
    ctx.cov["fault_points_total"] = {"injected": sum(v["injected"] for v in R.stats["fault_points"].values()),
                                     "raised": sum(v["raised"] for v in R.stats["fault_points"].values())}
    for k in ("unmodelled_failure_points", "swallowed_faults", "later_results_compared"):
        ctx.cov[k] = R.stats[k]
    ctx.cov["unmapped_statements"] = R.stats["unmapped_statements"][:10]
    if R.cases:
        ctx.cov["samples"].append({"coq_case": R.cases[len(R.cases) // 2]["meta"]})

    # ---- findings on the real code (property oracle), one per (operation, leaked state)
    ops_with_witness = set()
    for (op, leak), f in sorted(R.findings.items()):
        ops_with_witness.add(op)
        w = f["first"]
        what = (f"{op}: after a failure at fault point {w['fault_point_k']} ({w['scenario']}) the linker differs from its "
                f"pre-call state in {w['differing_fields'] or 'later results'}"
                + (f"; {w['later']}" if w["later"] else "") + f" [{f['count']} fault points]")
        replay = dict(w, fault_points_with_this_leak=f["points"][:60], specification="visible state after the failed call = "
                      "pre-call snapshot; later predict() = reference linker", model_leaks=leaks.get(op))
        ctx.violation(what, replay, {"op": op, "leak": leak})
    ctx.cov["findings_by_class"] = {f"{op}/{leak}": f["count"] for (op, leak), f in R.findings.items()}

    # ---- disagreements model / real that are not explained by a finding
    unexplained = [R.cases[i]["meta"] for i in bad if not R.cases[i]["meta"]["changed"]]
    explained = [R.cases[i]["meta"] for i in bad if R.cases[i]["meta"]["changed"]]
    if explained:
        ctx.log(f"{len(explained)} fault points where the real state changed although the model predicted otherwise (see findings)")
        ctx.cov["model_missed_real_change"] = explained[:5]
    if unexplained or errs:
        ctx.violation("the trace model and the real code disagree on fault points where the real state is intact "
                      "(model / translator no longer describes the code)",
                      {"broken": "correspondence run_case", "cases": unexplained[:5], "errors": errs[:2]}, found_input=False)
    if R.stats["unmapped_statements"]:
        ctx.violation("SQL executed at a call the translator does not list as a failure point",
                      {"broken": "site mapping", "statements": R.stats["unmapped_statements"][:5]}, found_input=False)
    for op in nonatomic:
        if op not in ops_with_witness and not ctx.replay:
            ctx.violation(f"atomicb rejects the regenerated trace of {op} (may leak {leaks.get(op)}) but fault injection found no failing input",
                          {"broken": f"atomicb trace_{op}", "leaks": leaks.get(op), "trace": T.pretty(traces[op].prog)},
                          found_input=False)
    for op, t in traces.items():
        if not isinstance(t, T.Trace):
            ctx.violation(f"effect trace of {op} can no longer be extracted: {t}", {"broken": f"translate {op}"}, found_input=False)
