"""C08  A failing call leaves the model and later results untouched.

 P  Properties/C08.v: the atomicity checker `atomicb` over effect traces is sound for every
    oracle (path), every fault point and every user-level raise (C08_atomicb_sound, per field
    C08_leaks_sound); the pinned shapes of the three defective operations are refuted.
 T  translators/c08_effects.py regenerates the trace of every public operation from /repo's
    source; `atomicb trace_op` is evaluated by the kernel VM for each of them.
 X  harness/c08_x.py: exhaustive fault injection on the real code (DuckDB, SQLite subset):
    for every SQL statement an operation issues, a fresh linker on which exactly that
    statement raises; property oracle = pre-call snapshot; the Coq model's `run_case` must
    predict the failure site and the same per-field changed/unchanged pattern; later
    predict(), one more inference op and a cache-sensitive sequence (compute_tf_table or
    register_term_frequency_lookup, then predict()) must equal a reference linker that never
    made the failed call.  Fault runs are distributed over C08_WORKERS (default 4) processes.
"""
from __future__ import annotations

import json
import os
import re
import time

from harness.common import Ctx, REPO, coq_list, git_blob
from translators import c08_effects as T

HEADER0 = """From Coq Require Import List Bool ZArith Arith.
From Splinkv Require Import Model.Atomic.
Import ListNotations.
"""


def header_for(traces):
    lines = [HEADER0]
    for op, t in traces.items():
        if isinstance(t, T.Trace):
            lines.append(f"Definition p_{op} : prog := {T.to_coq(t.prog)}.")
    return "\n".join(lines) + "\n"


def trace_stage(ctx: Ctx):
    ix, traces = T.translate_all(REPO)
    ok_ops = [op for op, t in traces.items() if isinstance(t, T.Trace)]
    for op, t in traces.items():
        if not isinstance(t, T.Trace):
            ctx.obligation(f"translate effect trace of {op}", False, str(t))
        else:
            ctx.obligation(f"translate effect trace of {op}", True)
    missing, stale = T.completeness(ix)
    if not ctx.obligation("every public method of the 7 Linker* component classes is an operation of T (or explicitly excluded)",
                          not missing and not stale, f"not covered: {missing}; no longer in the code: {stale}"):
        ctx.violation(f"public operations outside the scope of the check: {missing}; listed but gone: {stale}",
                      {"broken": "operation list completeness", "missing": missing, "stale": stale}, found_input=False)
    from harness import c08_x as X0
    no_scenario = sorted(set(T.OPS) - {sc["op"] for sc in X0.scenarios().values()})
    if not ctx.obligation("every operation of T has a fault-injection scenario", not no_scenario, str(no_scenario)):
        ctx.violation(f"operations without an X scenario: {no_scenario}", {"broken": "scenario completeness", "ops": no_scenario},
                      found_input=False)
    header = header_for(traces)
    bad, errs = ctx.eval_cases("C08_atomic", header, [f"p_{op}" for op in ok_ops], "atomicb", shard=50, timeout=300)
    for e in errs:
        ctx.obligation("atomicb evaluation", False, e)
    if errs:
        ctx.violation("atomicb could not be evaluated on the regenerated traces", {"broken": "atomicb evaluation", "errors": errs[:2]},
                      found_input=False)
    nonatomic = [ok_ops[i] for i in bad]
    for op in ok_ops:
        ctx.obligation(f"atomicb trace_{op} = true", op not in nonatomic and not errs)
    leaks = {}
    if nonatomic:
        txt = header + "Eval vm_compute in (" + coq_list([f"leaks p_{op}" for op in nonatomic]) + ").\n"
        ok, out = ctx.coqc_text("C08_leaks", txt, timeout=120)
        m = re.search(r"=\s*(\[.*\])\s*:", out.replace("\n", " "))
        if ok and m:
            groups = re.findall(r"\[([^\[\]]*)\]", m.group(1))
            for op, g in zip(nonatomic, groups):
                leaks[op] = [x.strip() for x in g.split(";") if x.strip()]
    ctx.cov["translated_sources"] = {p: git_blob(REPO / p) for p in T.FILES}
    ctx.cov["trace_obligations"] = {"operations": len(traces), "translated": len(ok_ops), "atomic": len(ok_ops) - len(nonatomic),
                                   "not_atomic": {op: leaks.get(op, "?") for op in nonatomic},
                                   "untranslatable": {op: str(t) for op, t in traces.items() if not isinstance(t, T.Trace)}}
    unknown = sorted({u for t in traces.values() if isinstance(t, T.Trace) for u in t.unknown_calls})
    ctx.cov["unclassified_calls_treated_as_Mut_unknown"] = unknown
    sizes = {op: len(T.to_coq(t.prog)) for op, t in traces.items() if isinstance(t, T.Trace)}
    ctx.cov["trace_term_bytes"] = sizes
    return ix, traces, header, nonatomic, leaks


CORE = ("estimate_u", "em", "prob", "m_label", "m_pairwise", "predict", "deterministic_link", "find_matches", "compare_two",
        "compute_tf_table", "register_tf_lookup", "register_concat_with_tf", "register_predict", "invalidate_cache",
        "delete_tables", "query_sql")


def plan(ctx: Ctx):
    """[(config, scenario filter, stride function)]; stride 1 = every fault point"""
    from harness import c08_x as X
    rng = ctx.rng
    out = []

    def cfgv(backend, link_type, retain, idx):
        """a configuration on which the reference linker (prefix operations, predict and the later operations)
        works; the data is re-drawn (same backend / link type / flags / prefix) when e.g. a trained u of 0 makes
        predict raise; if no draw works the code under test can no longer run the prefix: reported"""
        first = None
        why = ""
        for attempt in range(4):
            cfg = X.gen_config(rng, backend, link_type, retain, idx)
            if first is None:
                first = cfg
            else:
                cfg.update({k: first[k] for k in ("prefix", "em_col", "later", "cache_later", "new_city", "max_iterations")})
            try:
                err = _in_child(_try_config, cfg)     # never touch DuckDB in this process: workers are forked from it
                if err:
                    raise RuntimeError(err)
                if attempt:
                    ctx.hist("configurations_redrawn", cfg["id"])
                return cfg
            except Exception as e:      # noqa: BLE001
                why = f"{type(e).__name__}: {str(e)[-300:]}"
        ctx.obligation(f"configuration {first['id']} (prefix {first['prefix']}) can be built", False, why)
        ctx.violation(f"no configuration {first['id']} with prefix operations {first['prefix']} can be built and predicted on: {why}",
                      {"broken": "scenario setup", "config": {k: v for k, v in first.items() if k != "rows"}, "error": why},
                      found_input=False)
        return None
    if ctx.quick:
        # primary: every fault point of every operation, every 3rd of the long clustering loops
        a = cfgv("duckdb", "dedupe_only", False, 0)
        out.append((a, lambda sc: not sc["needs_retain"],
                    lambda sc: 3 if sc["heavy"] else 1))
        b = cfgv("duckdb", "dedupe_only", True, 1)
        out.append((b, lambda sc: sc["needs_retain"] or sc["name"] in ("compare_two", "find_matches", "em"),
                    lambda sc: 1))
        c = cfgv("duckdb", "link_only", False, 2)
        out.append((c, lambda sc: sc["name"] in ("estimate_u", "em", "predict", "find_matches", "cluster", "cluster_best_links",
                                                 "m_pairwise", "labelling_tool", "unlinkables", "graph_metrics", "register_tf_lookup",
                                                 "U:em_no_pairs", "U:find_matches_missing_columns"),
                    lambda sc: 4 if sc["heavy"] else 2))
        d = cfgv("sqlite", "dedupe_only", False, 3)
        out.append((d, lambda sc: sc["name"] in ("estimate_u", "em", "predict", "find_matches", "compare_two", "m_label",
                                                 "compute_tf_table", "register_tf_lookup", "register_predict", "query_sql",
                                                 "invalidate_cache", "U:em_no_pairs", "U:compare_two_missing_columns"),
                    lambda sc: 1))
    else:
        # every fault point of every scenario on every (backend, link type, retain) combination; the primary
        # combination twice with different data / parameters
        i = 0
        for backend in ("duckdb", "sqlite"):
            for lt in ("dedupe_only", "link_only"):
                for retain in (False, True):
                    for _rep in range(2 if (backend, lt) == ("duckdb", "dedupe_only") else 1):
                        out.append((cfgv(backend, lt, retain, i), lambda sc: True, lambda sc: 1))
                        i += 1
    return out


def _try_config(cfg):
    from harness import c08_x as X
    try:
        lk, _api, _ = X.build(cfg)
        X.later_ops(lk, cfg)
        return None
    except Exception as e:      # noqa: BLE001
        return f"{type(e).__name__}: {str(e)[-300:]}"


def _in_child(fn, arg):
    import multiprocessing as mp
    with mp.get_context("fork").Pool(1) as pool:
        return pool.apply(fn, (arg,))


WORKERS = int(os.environ.get("C08_WORKERS", "4"))
_W = {}


class LiteCtx:
    """what a Runner needs from Ctx inside a worker process; replayed on the real Ctx by merge()"""
    def __init__(self):
        self.events = []
        self.notes = []
        self.cov = {"evaluations": 0}

    def count_case(self, key, nontrivial, sample=None):
        self.events.append(("count_case", key, nontrivial, sample))

    def hist(self, name, key):
        self.events.append(("hist", name, key))

    def log(self, *a):
        pass


def _work(i):
    from harness import c08_x as X
    cfg, name, stride, off = _W["tasks"][i]
    lc = LiteCtx()
    R = _W.get("runner")
    if R is None:
        R = _W["runner"] = X.Runner(lc, _W["ix"], _W["traces"])
    R.ctx = lc
    R.cases, R.findings = [], {}
    R.stats = {"fault_points": {}, "unmodelled_failure_points": 0, "swallowed_faults": 0, "unmapped_statements": [],
               "later_results_compared": 0, "model_over_approximations": 0}
    try:
        R.run_scenario(cfg, R.S[name], stride=stride, offset=off)
        err = None
    except Exception:           # noqa: BLE001
        import traceback
        err = traceback.format_exc()
    return {"cases": R.cases, "findings": R.findings, "stats": R.stats, "events": lc.events, "notes": lc.notes, "error": err,
            "task": (cfg["id"], name)}


def run_tasks(ix, traces, tasks):
    import multiprocessing as mp
    _W.update(ix=ix, traces=traces, tasks=tasks)
    _W.pop("runner", None)
    if WORKERS <= 1 or len(tasks) <= 1:
        return [_work(i) for i in range(len(tasks))]
    with mp.get_context("fork").Pool(WORKERS) as pool:
        return pool.map(_work, range(len(tasks)), chunksize=1)


def merge(ctx, R, res):
    if res["error"]:
        raise RuntimeError(f"C08 worker failed on {res['task']}:\n{res['error']}")
    for ev in res["events"]:
        if ev[0] == "count_case":
            ctx.count_case(ev[1], ev[2], ev[3])
        else:
            ctx.hist(ev[1], ev[2])
    ctx.notes += res["notes"]
    R.cases += res["cases"]
    for key, f in res["findings"].items():
        g = R.findings.setdefault(key, {"count": 0, "first": None, "points": []})
        g["count"] += f["count"]
        g["points"] += f["points"]
        if g["first"] is None:
            g["first"] = f["first"]
    st = res["stats"]
    for name, fp in st["fault_points"].items():
        g = R.stats["fault_points"].setdefault(name, {"operation": fp["operation"], "statements": {}, "injected": 0, "raised": 0})
        g["statements"].update(fp["statements"])
        g["injected"] += fp["injected"]
        g["raised"] += fp["raised"]
    for k in ("unmodelled_failure_points", "swallowed_faults", "later_results_compared", "skipped_later_reference_raises"):
        R.stats[k] = R.stats.get(k, 0) + st.get(k, 0)
    R.stats["unmapped_statements"] += st["unmapped_statements"]


def run(ctx: Ctx):
    ctx.cov["rule"] = ("T: one obligation `atomicb trace_op = true` per public operation, trace regenerated from the source. "
                       "X: configuration (seeded rows, m/u/prior grid, prefix ops, link type, retain flags, backend) x scenario "
                       "(operation + arguments) x fault point k in 1..N (N = statements the operation issues; quick tier strides "
                       "long lists on the secondary configurations) + user-level failures; a case is non-trivial when the call "
                       "really raised; distinct by (configuration, scenario, k).")
    ctx.trusted += [
        "translators/c08_effects.py: alias tracking limited to the fixed list of inlined callees; calls in SQL_NAMES / PURE_NAMES "
        "are trusted not to write the settings they are handed (checked by X on every exercised path: each executed statement "
        "must map to a Sql site, the post-failure state is diffed field by field)",
        "harness X: failure points are every statement the backend executes (DuckDB: _execute_sql_against_backend; SQLite: that "
        "method and every cursor of the connection, so also as_record_dict / drop / pandas to_sql) and the listed user-level "
        "failures; DuckDB's con.register and failures inside pandas/JSON code are not covered",
        "modelled not verified: Python evaluation order / try-finally semantics as in Model/Atomic.v `run`",
    ]
    ok = ctx.proof_stage("Properties/C08.v")
    if not ok:
        ctx.violation("theorems of Properties/C08.v no longer check", {"broken": "Properties/C08.v"}, found_input=False)
    ix, traces, header, nonatomic, leaks = trace_stage(ctx)
    ctx.log(f"traces: {len(traces)} operations, not atomic: { {op: leaks.get(op) for op in nonatomic} }")

    from harness import c08_x as X
    R = X.Runner(ctx, ix, traces)
    if ctx.replay:
        rp = json.loads(open(ctx.replay).read())
        cfg = dict(rp["config"], rows=rp["rows"])
        sc = R.S[rp["scenario"]]
        k = rp["fault_point_k"]
        ctx.log(f"replaying {sc['name']} on {cfg['id']} at fault point {k}")
        if k == "user":
            R.run_scenario(cfg, sc)
        else:
            R.run_scenario(cfg, sc, stride=10 ** 9, offset=int(k) - 1)
    else:
        tasks = []
        only = os.environ.get("C08_SCENARIOS")          # development aid: restrict the scenarios
        for cfg, flt, stride_of in plan(ctx):
            if cfg is None:
                continue
            for name, sc in R.S.items():
                if not flt(sc) or cfg["backend"] not in sc["backends"]:
                    continue
                if only and name not in only.split(","):
                    continue
                if sc["needs_retain"] and not cfg["retain"]:
                    continue
                if sc["link_types"] and cfg["link_type"] not in sc["link_types"]:
                    continue
                if sc["no_retain"] and cfg["retain"]:
                    continue
                stride = stride_of(sc)
                off = ctx.rng.randrange(stride) if stride > 1 else 0
                tasks.append((cfg, name, stride, off))
            ctx.hist("configuration", f"{cfg['backend']}/{cfg['link_type']}/retain={cfg['retain']}/prefix={'+'.join(cfg['prefix']) or '-'}"
                                      f"/later={cfg['later']}+{cfg['cache_later']}")
        t0 = time.time()
        results = run_tasks(ix, traces, tasks)
        for (cfg, name, _s, _o), res in zip(tasks, results):
            merge(ctx, R, res)
        ctx.log(f"{len(tasks)} (configuration, scenario) tasks, {ctx.cov['evaluations']} fault runs in {time.time() - t0:.1f}s "
                f"({WORKERS} worker processes)")

    # ---- model vs real, inside Coq
    runner = "fun c => match c with (p, o, k, e, v, s, r) => run_case p o k e v s r end"
    terms = [c["term"] for c in R.cases]
    bad, errs = ctx.eval_cases("C08_x", header, terms, runner, shard=150, timeout=600) if terms else ([], [])
    for e in errs:
        ctx.log(e[-1500:])
    floor = 1 if (ctx.replay or os.environ.get("C08_SCENARIOS")) else (300 if ctx.quick else 1500)
    ctx.obligation("correspondence: model run_case agrees with the real post-failure state on every fault point", not bad and not errs,
                   f"{len(bad)} of {len(terms)} disagree")
    enough = ctx.obligation(f"at least {floor} fault points were evaluated against the model", len(terms) >= floor,
                            f"only {len(terms)} cases")
    if not enough:
        ctx.violation(f"only {len(terms)} fault points reached the model comparison (floor {floor}): coverage collapsed",
                      {"broken": "case floor", "cases": len(terms), "notes": ctx.notes[:10]}, found_input=False)
    skipped = ctx.cov.get("input_distribution", {}).get("skipped_setup_failed", {})
    ref_raises = R.stats.get("skipped_later_reference_raises", 0)
    if not ctx.obligation("no scenario was dropped because its setup or the reference linker raised",
                          not skipped and not ref_raises, f"setup failed: {skipped}; reference raises: {ref_raises}"):
        ctx.violation(f"scenarios could not be set up on the code under test (setup failed: {skipped}; later operations raise on the "
                      f"reference linker at {ref_raises} fault points)",
                      {"broken": "scenario setup", "skipped": skipped, "notes": [n for n in ctx.notes if "skipped" in n][:10]},
                      found_input=False)
    ctx.obligation("every executed SQL statement maps to a Sql site of the regenerated trace", not R.stats["unmapped_statements"],
                   json.dumps(R.stats["unmapped_statements"][:5]))
    ctx.cov["model_cases_evaluated_in_coq"] = len(terms)
    ctx.cov["fault_points"] = R.stats["fault_points"]
    ctx.cov["fault_points_total"] = {"injected": sum(v["injected"] for v in R.stats["fault_points"].values()),
                                     "raised": sum(v["raised"] for v in R.stats["fault_points"].values())}
    for k in ("unmodelled_failure_points", "swallowed_faults", "later_results_compared", "skipped_later_reference_raises"):
        ctx.cov[k] = R.stats.get(k, 0)
    ctx.cov["unmapped_statements"] = R.stats["unmapped_statements"][:10]
    if R.cases:
        ctx.cov["samples"].append({"coq_case": R.cases[len(R.cases) // 2]["meta"]})

    # ---- findings on the real code (property oracle), one per (operation, leaked state)
    ops_with_witness = set()
    for (op, leak), f in sorted(R.findings.items()):
        ops_with_witness.add(op)
        w = f["first"]
        what = (f"{op}: after a failure at fault point {w['fault_point_k']} ({w['scenario']}) the linker differs from its "
                f"pre-call state in {w['differing_fields'] or 'later results'}"
                + (f"; {w['later']}" if w["later"] else "") + f" [{f['count']} fault points]")
        replay = dict(w, fault_points_with_this_leak=f["points"][:60], specification="visible state after the failed call = "
                      "pre-call snapshot; later predict() = reference linker", model_leaks=leaks.get(op))
        ctx.violation(what, replay, {"op": op, "leak": leak})
    ctx.cov["findings_by_class"] = {f"{op}/{leak}": f["count"] for (op, leak), f in R.findings.items()}

    # ---- disagreements model / real that are not explained by a finding
    # "explained" = the real state differs in its content (then a finding above reports it); a change of the identity of
    # core_model_settings alone (FCoreModel) is no finding, so such a disagreement counts as unexplained
    def vis(m):
        return [f for f in m["changed"] if f != "FCoreModel"]
    unexplained = [R.cases[i]["meta"] for i in bad if not vis(R.cases[i]["meta"])]
    explained = [R.cases[i]["meta"] for i in bad if vis(R.cases[i]["meta"])]
    if explained:
        ctx.log(f"{len(explained)} fault points where the real state changed although the model predicted otherwise (see findings)")
        ctx.cov["model_missed_real_change"] = explained[:5]
    if unexplained or errs:
        ctx.violation("the trace model and the real code disagree on fault points where the real state is intact "
                      "(model / translator no longer describes the code)",
                      {"broken": "correspondence run_case", "cases": unexplained[:5], "errors": errs[:2]}, found_input=False)
    if R.stats["unmapped_statements"]:
        ctx.violation("SQL executed at a call the translator does not list as a failure point",
                      {"broken": "site mapping", "statements": R.stats["unmapped_statements"][:5]}, found_input=False)
    for op in nonatomic:
        if op not in ops_with_witness and not ctx.replay:
            ctx.violation(f"atomicb rejects the regenerated trace of {op} (may leak {leaks.get(op)}) but fault injection found no failing input",
                          {"broken": f"atomicb trace_{op}", "leaks": leaks.get(op), "trace": T.pretty(traces[op].prog)},
                          found_input=False)
    for op, t in traces.items():
        if not isinstance(t, T.Trace):
            ctx.violation(f"effect trace of {op} can no longer be extracted: {t}", {"broken": f"translate {op}"}, found_input=False)
