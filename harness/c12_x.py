"""C12 correspondence: the real `linker.clustering.cluster_using_single_best_links` on DuckDB /
SQLite, with every `__splink__df_representatives_N` table captured by wrapping the DatabaseAPI,
against the Gallina model (Model/OneToOne.v) evaluated inside Coq:

  * tie-free inputs : lock-step equality of the whole trajectory with the deterministic model
  * all inputs      : every captured step is ONE OF the steps the model allows for some pair of
                      rank-1 tie-breaks (`oto_step_allowed`), and the loop exits exactly when a
                      step changes nothing
  * all inputs      : the property oracle on the returned table (independent Python): partition,
                      duplicate-freeness, connectivity through >= threshold edges inside each
                      cluster, maximality when tie-free.
"""
from __future__ import annotations

import itertools
import json
import re
from fractions import Fraction

import pandas as pd

from harness import splink_util as su
from harness.common import Ctx, coq_list, coq_Q, coq_Z, coq_bool

SEP = "-__-"
DEN = 1024


def fr(x):
    """A probability / threshold of a case: int k means k/1024, [num, den] an exact rational (the
    exact value of an engine float, used for thresholds given as match weights)."""
    return Fraction(x, DEN) if isinstance(x, int) else Fraction(int(x[0]), int(x[1]))


def weight_to_prob(w):
    """The implementation's own conversion of a match-weight threshold (exact value of its float)."""
    from splink.internals.misc import bayes_factor_to_prob, match_weight_to_bayes_factor
    f = Fraction(bayes_factor_to_prob(match_weight_to_bayes_factor(w)))
    return [f.numerator, f.denominator]

HEADER = """From Coq Require Import List Bool ZArith QArith.
From Splinkv Require Import Model.OneToOne.
Import ListNotations.
Open Scope Z_scope.
Definition sds_of (nodes : list node) (v : Z) : Z :=
  match find (fun n => n_id n =? v) nodes with Some n => n_sds n | None => -1 end.
Definition attach (nodes : list node) (t : list (Z * Z)) : list reprow :=
  map (fun nr => (fst nr, snd nr, sds_of nodes (fst nr))) t.
Definition tables_eq (a : list (Z * Z)) (b : list rep4) : bool :=
  same_set a (node_rep b) && Nat.eqb (length a) (length b).
Fixpoint traces_eq (impl : list (list (Z * Z))) (model : list (list rep4)) : bool :=
  match impl, model with
  | [], [] => true
  | a :: ta, b :: tb => tables_eq a b && traces_eq ta tb
  | _, _ => false
  end.
(* every captured step is allowed by some rank-1 choices; the loop stops exactly at the first
   step that changes nothing; chk says whether the enumeration is small enough to run *)
Fixpoint steps_allowed (dfs : list Z) (nbs : list nbrow) (nodes : list node)
         (prev : list (Z * Z)) (impl : list (list (Z * Z) * bool)) : bool :=
  match impl with
  | [] => false
  | (nxt, chk) :: rest =>
      (if chk then oto_step_allowed dfs nbs (attach nodes prev) nxt else true)
      && Nat.eqb (length nxt) (length prev)
      && (if same_set prev nxt
          then match rest with [] => true | _ => false end
          else match rest with [] => false | _ => steps_allowed dfs nbs nodes nxt rest end)
  end.
Definition init_tbl (nodes : list node) : list (Z * Z) := map (fun n => (n_id n, n_id n)) nodes.
(* tie-free: the returned partition is the partition of the sequential greedy specification *)
Definition same_partition (f : list (Z * Z)) (g : Z -> Z) : bool :=
  forallb (fun a => forallb (fun b => Bool.eqb (snd a =? snd b) (g (fst a) =? g (fst b))) f) f.
(* deterministic comparison under a rank order that ranks no two rows of the case equal:
   lock-step trajectory and final partition = sequential greedy specification *)
Definition det_ok (le : rank_le) (dfs : list Z) (thr : Q) (nodes : list node) (E : list edge)
           (impl : list (list (Z * Z) * bool)) : bool :=
  traces_eq (map fst impl)
    (oto_trace dfs (df_neighbours (Some thr) E) (max_by le) (max_by le) (S (length impl)) 1 (df_representatives nodes))
  && same_partition (last (map fst impl) []) (greedy_clusters le dfs (Some thr) nodes E).
(* case: duplicate-free datasets, threshold, nodes, edges, mode, captured trajectory
   mode 0: allowed steps only; 1: + deterministic under ORDER BY match_probability desc (tie-free
   input); 2: + deterministic under the tie-break ORDER BY (emitted SQL has it, no duplicated pair) *)
Definition run_case (c : list Z * Q * list node * list edge * nat * list (list (Z * Z) * bool)) : bool :=
  match c with (dfs, thr, nodes, E, mode, impl) =>
    let nbs := df_neighbours (Some thr) E in
    steps_allowed dfs nbs nodes (init_tbl nodes) impl
    && match mode with
       | 1%nat => det_ok le_prob dfs thr nodes E impl
       | 2%nat => det_ok le_tiebreak dfs thr nodes E impl
       | _ => true
       end
  end.
"""

DS_NAMES = ["a", "b", "c", "d"]


# --------------------------------------------------------------------------------------------
def composite(sds, uid):
    return f"{sds}{SEP}{uid}"


def gen_case(rng, backend, ties: bool, dfs=None, fixed=None):
    """fixed = (names, nodes): new predictions over the records of an earlier call."""
    if fixed is not None:
        names, nodes = fixed[0], list(fixed[1])
        k = len(names)
    else:
        k = rng.choice([2, 2, 3, 3, 4])
        names = rng.sample(["a", "b", "c", "d", "ds_x", "Bq"], k)
        odd_names = rng.random() < 0.4
        if odd_names:
            # dataset NAMES are data, not identifiers: names differing only by case, with spaces, hyphens,
            # leading digits, a single quote, SQL keywords (FX-C12-dataset-name-flags)
            pool = ["A", "a", "Ab", "aB", "left set", "right-set", "1st", "2nd source", "o'brien", "select", "group", "Order", "order", "b"]
            names = rng.sample(pool, k)
            if rng.random() < 0.6 and k >= 2:              # force a pair that differs only by case
                pair = rng.choice([("A", "a"), ("Ab", "aB"), ("Order", "order")])
                names = list(pair) + [x for x in names if x.lower() != pair[0].lower()][:k - 2]
                rng.shuffle(names)
                k = len(names)
        nodes = []
        uid_pool = rng.sample([1, 2, 3, 7, 9, 10, 11, 20, 21, 100, 101, 5, 30], 13)
        shared_uids = rng.random() < 0.5            # same unique_id values reused across datasets
        for ds in names:
            n = rng.randint(1, 4 if k <= 3 else 3)
            ids = rng.sample(uid_pool, n) if shared_uids else [uid_pool.pop() for _ in range(n)]
            nodes += [(ds, int(u)) for u in ids]
        rng.shuffle(nodes)
    n = len(nodes)
    allow_within = rng.random() < 0.5
    pairs = [(i, j) for i in range(n) for j in range(i + 1, n) if allow_within or nodes[i][0] != nodes[j][0]]
    rng.shuffle(pairs)
    m = min(len(pairs), rng.randint(1, max(2, 2 * n)))
    pairs = pairs[:m]
    if ties:
        grid = rng.sample(range(300, 1000, 50), rng.randint(1, 3))
        probs, cnt = [], {}
        for _ in pairs:
            if rng.random() < 0.7:
                g = rng.choice(grid)
                if cnt.get(g, 0) < 3:
                    cnt[g] = cnt.get(g, 0) + 1
                    probs.append(g)
                    continue
            probs.append(None)
        free = [x for x in rng.sample(range(1, DEN), len(pairs) + 5) if x not in grid]
        probs = [p if p is not None else free.pop() for p in probs]
    else:
        probs = rng.sample(range(1, DEN), len(pairs))
    edges = []
    for (i, j), p in zip(pairs, probs):
        if rng.random() < 0.5:
            i, j = j, i
        edges.append((i, j, p))
    if ties and rng.random() < 0.15 and edges:      # a duplicated edge row (bag semantics)
        i, j, p = rng.choice(edges)
        edges.append((j, i, p) if rng.random() < 0.5 else (i, j, p))
    rng.shuffle(edges)
    thr = rng.choice([0, 256, 512, 512, 640, rng.randint(1, DEN - 1)])
    if edges and rng.random() < 0.35:             # an edge exactly at the threshold (>= vs >)
        t = rng.choice(edges)[2]
        thr = t
    thr_weight = None
    if rng.random() < 0.25:
        # threshold given as a match weight (integer or fractional); the model uses the exact value
        # of the implementation's own conversion; often one edge sits exactly on it
        thr_weight = rng.choice(WEIGHT_GRID)
        thr = weight_to_prob(thr_weight)
        if edges and rng.random() < 0.6:
            x = rng.randrange(len(edges))
            if not ties and any(fr(p) == fr(thr) for _, _, p in edges):
                pass
            else:
                edges[x] = (edges[x][0], edges[x][1], thr)
    if dfs is None:
        subsets = [s for r in range(1, k + 1) for s in itertools.combinations(names, r)]
        dfs = list(rng.choice(subsets))
    lower = [x.lower() for x in names]
    twins = [x for x in names if lower.count(x.lower()) > 1]
    if twins and rng.random() < 0.7:
        dfs = sorted(set(dfs) | set(twins))    # both spellings declared duplicate-free
    form = rng.choice(["single", "single", "multi"])
    if any(x not in ("a", "b", "c", "d", "ds_x", "Bq") for x in names):
        form = "single"          # table aliases must be identifiers; odd names only as source_dataset values
    return {"backend": backend, "names": names, "nodes": nodes, "edges": edges, "thr": thr, "thr_weight": thr_weight,
            "dfs": list(dfs), "form": form, "ties_wanted": ties}


def gen_history(rng, backend):
    """2-3 clusterings on ONE linker; the predictions are re-registered under the same name
    (register_table_predict(..., overwrite=True)) before every call, mostly with the same threshold
    and duplicate-free datasets.  The output of a call is kept alive or dropped at random (a kept output
    followed by a call with the same threshold and duplicate-free datasets is the class of
    FX-C12-history-stale-output, which also has its own witness)."""
    base = gen_case(rng, backend, ties=rng.random() < 0.3)
    calls = [base]
    for _ in range(rng.choice([1, 1, 2])):
        c = gen_case(rng, backend, ties=rng.random() < 0.3, fixed=(base["names"], base["nodes"]))
        c["form"] = base["form"]
        if rng.random() < 0.8:
            c["thr"], c["thr_weight"] = base["thr"], base["thr_weight"]
        if rng.random() < 0.7 or not set(c["dfs"]) <= set(base["names"]):
            c["dfs"] = list(base["dfs"])
        if rng.random() < 0.15:
            c["edges"] = list(calls[-1]["edges"])          # the same predictions again
        calls.append(c)
    keep = [rng.random() < 0.6 for _ in calls]
    return {"calls": calls, "keep_output": keep}


def has_dup_pairs(case):
    """The same pair of records listed twice with the same probability (never produced by
    predict(); the tie-break of the ORDER BY cannot separate such rows)."""
    keys = [(min(i, j), max(i, j), fr(p)) for i, j, p in case["edges"]]
    return len(set(keys)) != len(keys)


def tie_free(case):
    ps = [fr(p) for _, _, p in case["edges"]]
    return len(set(ps)) == len(ps)


# --------------------------------------------------------------------------------------------
def run_history(cases, keep_output=None):
    """All cases share records/backend/form and run on ONE linker, each after re-registering its
    predictions under the same name.  Returns [(trace, final)] per call; trace = captured
    __splink__df_representatives_N tables; final = (cluster_id, source_dataset, unique_id) rows."""
    from splink import Linker, SettingsCreator
    first = cases[0]
    names, nodes = first["names"], first["nodes"]
    api = su.make_api(first["backend"])
    if first.get("threads") and first["backend"] == "duckdb":
        api._con.execute(f"SET threads TO {int(first['threads'])}")
    cur = {"case": first, "trace": []}
    orig = api.sql_pipeline_to_splink_dataframe

    def wrapped(pipeline, use_cache=True):
        case = cur["case"]
        for cte in getattr(pipeline, "queue", []):
            if re.fullmatch(r"__splink__df_ranked_\d+", cte.output_table_name or ""):
                m = order_mode(cte.sql)
                if m not in case.setdefault("_order_modes", []):
                    case["_order_modes"].append(m)
        d = orig(pipeline, use_cache)
        if re.fullmatch(r"__splink__df_representatives_\d+", d.templated_name):
            rows = d.as_record_dict()
            cur["trace"].append({"rows": [(r["node_id"], r["representative"], r["source_dataset"], bool(r["needs_updating"])) for r in rows]})
        return d
    api.sql_pipeline_to_splink_dataframe = wrapped
    s = SettingsCreator(link_type="link_only", comparisons=[], blocking_rules_to_generate_predictions=[])
    if first["form"] == "single" or len({ds for ds, _ in nodes}) < 2:
        df = pd.DataFrame({"unique_id": [u for _, u in nodes], "source_dataset": [ds for ds, _ in nodes]})
        lk = Linker(df, s, api)
    else:
        present = [ds for ds in names if any(d == ds for d, _ in nodes)]
        tabs = [pd.DataFrame({"unique_id": [u for d, u in nodes if d == ds]}) for ds in present]
        lk = Linker(tabs, s, api, input_table_aliases=present)
    su.quiet()
    results, kept = [], []
    for k, case in enumerate(cases):
        cur["case"], cur["trace"] = case, []
        e = case["edges"]
        pred = pd.DataFrame({
            "unique_id_l": [nodes[i][1] for i, _, _ in e], "unique_id_r": [nodes[j][1] for _, j, _ in e],
            "source_dataset_l": [nodes[i][0] for i, _, _ in e], "source_dataset_r": [nodes[j][0] for _, j, _ in e],
            "match_probability": [float(fr(p)) for _, _, p in e]})
        dp = lk.table_management.register_table_predict(pred, overwrite=True)
        out = lk.clustering.cluster_using_single_best_links(dp, duplicate_free_datasets=list(case["dfs"]), **threshold_kwargs(case))
        final = [(r["cluster_id"], r["source_dataset"], r["unique_id"]) for r in out.as_record_dict()]
        results.append((cur["trace"], final))
        if keep_output is not None and not keep_output[k]:
            out.drop_table_from_database_and_remove_from_cache()
        else:
            kept.append(out)
    return results


def run_impl(case):
    return run_history([case])[0]


# --------------------------------------------------------------------------------------------
# T: the ORDER BY of the two row_number() windows, read from the SQL the real code emits
LO = "case when neighbours.node_id < neighbours.neighbour then neighbours.node_id else neighbours.neighbour end"
HI = "case when neighbours.node_id < neighbours.neighbour then neighbours.neighbour else neighbours.node_id end"
_SHAPES = {}


def _keys(order_sql):
    import sqlglot
    import sqlglot.expressions as E
    w = sqlglot.parse_one(f"select row_number() over (partition by x order by {order_sql}) from t").find(E.Window)
    return [k.sql() for k in w.args["order"].expressions]


def order_mode(sql):
    """'prob' | 'tiebreak' | 'unknown:<why>'  (fail closed on any other shape)."""
    import sqlglot
    import sqlglot.expressions as E
    if not _SHAPES:
        _SHAPES["prob"] = _keys("match_probability desc")
        _SHAPES["tiebreak"] = _keys(f"match_probability desc, {LO}, {HI}")
    try:
        wins = list(sqlglot.parse_one(sql).find_all(E.Window))
    except Exception as e:  # noqa: BLE001
        return f"unknown:parse {e!r}"
    if len(wins) != 2:
        return f"unknown:{len(wins)} windows"
    parts = sorted(",".join(p.sql() for p in (w.args.get("partition_by") or [])) for w in wins)
    if parts != ["l.representative", "r.representative"]:
        return f"unknown:partitions {parts}"
    modes = set()
    for w in wins:
        if not isinstance(w.this, E.RowNumber) or w.args.get("order") is None:
            return "unknown:not row_number() over (... order by ...)"
        keys = [k.sql() for k in w.args["order"].expressions]
        m = [name for name, shape in _SHAPES.items() if shape == keys]
        if not m:
            return f"unknown:order by {keys}"
        modes.add(m[0])
    if len(modes) != 1:
        return "unknown:the two windows use different ORDER BY clauses"
    return modes.pop()


WEIGHT_GRID = [-2, -1, 0, 0, 1, 2, 3, 0.5, -0.75, 1.25, 2.5]


def weight_conversion_obligation(ctx):
    """Independent of splink: the probability the implementation derives from a match-weight threshold
    must be 2^w / (1 + 2^w) to within 2 ulp (three float roundings: 2**w, 1+bf, the quotient; the worst
    case on the grid is 1.13 ulp at w = 0.5).  Reference computed with 60-digit decimals, compared as
    exact rationals."""
    import math
    from decimal import Decimal, getcontext
    getcontext().prec = 60
    worst, bad = Fraction(0), []
    for w in sorted(set(WEIGHT_GRID) | {-7.3, 11, 0.1, -0.1}):
        got = fr(weight_to_prob(w))
        bf = Fraction(Decimal(2) ** Decimal(repr(w)))
        ref = bf / (1 + bf)
        err = abs(got - ref) / Fraction(math.ulp(float(ref)))
        worst = max(worst, err)
        if err > 2:
            bad.append((w, float(got), float(ref)))
    ctx.cov["weight_threshold_conversion_worst_error_ulp"] = float(worst)
    ok = ctx.obligation("match-weight thresholds convert to 2^w/(1+2^w) within 2 ulp (independent reference)", not bad, str(bad))
    if not ok:
        ctx.violation("threshold_match_weight is converted to a probability that is not 2^w/(1+2^w): " + str(bad[:3]),
                      {"broken": "weight conversion", "cases": bad}, {"kind": "weight_conversion"}, found_input=False)


def threshold_kwargs(case):
    if case.get("no_threshold"):
        return {}
    if case.get("thr_weight") is not None:
        return {"threshold_match_weight": case["thr_weight"]}
    return {"threshold_match_probability": float(fr(case["thr"]))}


def ranks(case):
    keys = sorted(composite(ds, u) for ds, u in case["nodes"])
    assert len(set(keys)) == len(keys)
    return {k: i for i, k in enumerate(keys)}


# --------------------------------------------------------------------------------------------
# Python transcription of the candidate rows (only to size the tie-break enumeration and to
# describe failures; the comparison itself runs in Coq)
def py_candidates(case, rep):
    nodes, dfs, thr = case["nodes"], set(case["dfs"]), case["thr"]
    flags = {}
    for v, c in rep.items():
        ds = nodes[v][0]
        if ds in dfs:
            flags.setdefault(c, set()).add(ds)
    rows = []
    thr = fr(thr)
    for idx, (i, j, p) in enumerate(case["edges"]):
        p = fr(p)
        if p < thr:
            continue
        for rev, (a, b) in enumerate(((i, j), (j, i))):
            ca, cb = rep[a], rep[b]
            if ca != cb and not (flags.get(ca, set()) & flags.get(cb, set())):
                rows.append({"rid": (idx, rev), "node": a, "nb": b, "p": p, "lrep": ca, "rrep": cb})
    return rows


def enumeration_size(rows):
    size = 1
    for key in ("lrep", "rrep"):
        parts = {}
        for r in rows:
            parts.setdefault(r[key], []).append(r["p"])
        for ps in parts.values():
            size *= sum(1 for p in ps if p == max(ps))
            if size > 10 ** 7:
                return size
    return size


def py_model_tiefree(case, rk):
    """Deterministic trajectory for tie-free inputs (ids = ranks)."""
    n = len(case["nodes"])
    key = [rk[composite(*case["nodes"][v])] for v in range(n)]
    rep = {v: v for v in range(n)}          # representative as node index
    out = []
    for _ in range(10 * n + 10):
        rows = py_candidates(case, rep)
        best_l, best_r = {}, {}
        for r in rows:
            if r["lrep"] not in best_l or r["p"] > best_l[r["lrep"]]["p"]:
                best_l[r["lrep"]] = r
            if r["rrep"] not in best_r or r["p"] > best_r[r["rrep"]]["p"]:
                best_r[r["rrep"]] = r
        new = dict(rep)
        for r in rows:
            if best_l[r["lrep"]] is r and best_r[r["rrep"]] is r:
                if key[rep[r["nb"]]] < key[new[r["node"]]]:
                    new[r["node"]] = rep[r["nb"]]
        out.append({key[v]: key[new[v]] for v in range(n)})
        if new == rep:
            break
        rep = new
    return out


# --------------------------------------------------------------------------------------------
def oracle(case, final):
    """Property oracle on the returned table, independent of the model.  Returns list of
    (kind, detail)."""
    nodes, dfs, thr = case["nodes"], set(case["dfs"]), case["thr"]
    problems = []
    got = sorted((ds, u) for _, ds, u in final)
    if got != sorted(nodes):
        problems.append(("partition", {"returned_records": got, "input_records": sorted(nodes)}))
        return problems
    cl = {(ds, u): c for c, ds, u in final}
    members = {}
    for (ds, u), c in cl.items():
        members.setdefault(c, []).append((ds, u))
    for c, ms in members.items():
        for ds in dfs:
            k = [m for m in ms if m[0] == ds]
            if len(k) > 1:
                problems.append(("duplicate_free", {"cluster": c, "dataset": ds, "records": k}))
    thr = fr(thr)
    adj = {}
    for i, j, p in case["edges"]:
        if fr(p) >= thr:
            a, b = nodes[i], nodes[j]
            adj.setdefault(a, set()).add(b)
            adj.setdefault(b, set()).add(a)
    for c, ms in members.items():
        if has_dup_pairs(case):
            break           # connectivity is only claimed for tables listing each pair once per probability
        seen, todo = {ms[0]}, [ms[0]]
        while todo:
            x = todo.pop()
            for y in adj.get(x, ()):
                if y not in seen and cl[y] == c:
                    seen.add(y)
                    todo.append(y)
        if len(seen) != len(ms):
            problems.append(("connectivity", {"cluster": c, "members": sorted(ms), "reached": sorted(seen)}))
    strictly_ranked = tie_free(case) or (case.get("_order_modes") == ["tiebreak"] and not has_dup_pairs(case))
    if strictly_ranked:                       # C12_cluster_id_is_min
        for c, ms in members.items():
            least = min(composite(ds, u) for ds, u in ms)
            if c != least:
                problems.append(("cluster_id_not_least_member", {"cluster": c, "least_member": least}))
    if tie_free(case):
        for i, j, p in case["edges"]:
            a, b = nodes[i], nodes[j]
            if fr(p) >= thr and cl[a] != cl[b]:
                da = {m[0] for m in members[cl[a]]} & dfs
                db = {m[0] for m in members[cl[b]]} & dfs
                if not (da & db):
                    problems.append(("maximality", {"edge": [a, b, float(fr(p))], "clusters": [cl[a], cl[b]]}))
    return problems


# --------------------------------------------------------------------------------------------
ENUM_LIMIT = 1500


def case_term(case, trace, final):
    """Coq term + python-side consistency problems of the captured tables."""
    rk = ranks(case)
    nodes = case["nodes"]
    problems = []
    tbls = []
    for t in trace:
        rows = t["rows"]
        ids = [r[0] for r in rows]
        if sorted(ids) != sorted(rk) or any(r[1] not in rk for r in rows):
            problems.append(("iteration_table_ids", {"rows": rows}))
            return None, problems
        tbls.append({rk[r[0]]: rk[r[1]] for r in rows})
        for r in rows:
            if r[2] != r[0].split(SEP)[0]:
                problems.append(("iteration_table_source_dataset", {"row": r}))
    if not tbls:
        problems.append(("no_iteration_captured", {}))
        return None, problems
    # needs_updating column consistent with the change of representative
    prev = {i: i for i in range(len(nodes))}
    for t, tb in zip(trace, tbls):
        for r in t["rows"]:
            if r[3] != (tb[rk[r[0]]] != prev[rk[r[0]]]):
                problems.append(("needs_updating_flag", {"row": r}))
        prev = tb
    # returned table = last iteration table joined to the input
    last = tbls[-1]
    inv = {v: k for k, v in rk.items()}
    for c, ds, u in final:
        key = composite(ds, u)
        if key in rk and inv[last[rk[key]]] != c:
            problems.append(("final_differs_from_last_iteration", {"record": [ds, u], "cluster_id": c, "last_iteration": inv[last[rk[key]]]}))
    # per-step enumeration size
    n = len(nodes)
    idx_of_rank = {rk[composite(*nodes[v])]: v for v in range(n)}
    rep = {v: v for v in range(n)}
    chk = []
    for tb in tbls:
        chk.append(enumeration_size(py_candidates(case, rep)) <= ENUM_LIMIT)
        rep = {idx_of_rank[a]: idx_of_rank[b] for a, b in tb.items()}
    ds_idx = {ds: i for i, ds in enumerate(case["names"])}
    cnodes = coq_list([f"({coq_Z(rk[composite(ds, u)])}, {coq_Z(ds_idx[ds])})" for ds, u in nodes], "node")
    cedges = coq_list([f"({coq_Z(rk[composite(*nodes[i])])}, {coq_Z(rk[composite(*nodes[j])])}, {coq_Q(fr(p))})"
                       for i, j, p in case["edges"]], "edge")
    cdfs = coq_list([coq_Z(ds_idx[d]) for d in case["dfs"]], "Z")
    ctr = coq_list(["(" + coq_list([f"({coq_Z(a)}, {coq_Z(b)})" for a, b in sorted(tb.items())], "(Z * Z)") + ", " + coq_bool(c) + ")"
                    for tb, c in zip(tbls, chk)], "(list (Z * Z) * bool)")
    om = case.get("_order_modes", [])
    mode = 1 if tie_free(case) else (2 if om == ["tiebreak"] and not has_dup_pairs(case) else 0)
    term = f"({cdfs}, {coq_Q(fr(case['thr']))}, {cnodes}, {cedges}, {mode}%nat, {ctr})"
    return {"term": term, "tables": tbls, "checked_steps": chk, "rank": rk, "mode": mode}, problems


def features_of(case, kind):
    return {"kind": kind, "ties": not tie_free(case), "backend": case["backend"], "duplicate_pair_rows": has_dup_pairs(case),
            "threshold_as_weight": case.get("thr_weight") is not None}


def shrink(case, fails):
    changed = True
    while changed:
        changed = False
        for k in range(len(case["edges"])):
            c2 = json.loads(json.dumps(case))
            c2["nodes"] = [tuple(x) for x in c2["nodes"]]
            c2["edges"] = [tuple(x) for x in c2["edges"]]
            del c2["edges"][k]
            try:
                if c2["edges"] and fails(c2):
                    case, changed = c2, True
                    break
            except Exception:
                pass
        if changed:
            continue
        used = {i for i, _, _ in case["edges"]} | {j for _, j, _ in case["edges"]}
        for v in range(len(case["nodes"])):
            if v in used:
                continue
            c2 = json.loads(json.dumps(case))
            c2["nodes"] = [tuple(x) for x in c2["nodes"]]
            del c2["nodes"][v]
            c2["edges"] = [(i - (i > v), j - (j > v), p) for i, j, p in c2["edges"]]
            try:
                if fails(c2):
                    case, changed = c2, True
                    break
            except Exception:
                pass
    return case


def py_disagrees(case):
    """Failure predicate usable without Coq (for shrinking): oracle problem, table
    inconsistency, or - tie-free - a trajectory different from the transcription."""
    trace, final = run_impl(case)
    if oracle(case, final):
        return True
    info, problems = case_term(case, trace, final)
    if problems or info is None:
        return True
    if tie_free(case):
        return info["tables"] != py_model_tiefree(case, info["rank"])
    return False


def describe(case, trace, final, info):
    d = {"case": case, "implementation": {"iterations": [sorted(t["rows"]) for t in trace], "returned": sorted(final)}}
    if info and tie_free(case):
        d["specification"] = {"model_trajectory_over_ranks": py_model_tiefree(case, info["rank"]),
                              "implementation_trajectory_over_ranks": info["tables"], "rank_of_id": info["rank"]}
    return d


# --------------------------------------------------------------------------------------------
WITNESS = {"names": ["a", "b", "c"], "nodes": [("a", 0), ("a", 1), ("a", 2), ("b", 3), ("c", 4)],
           "edges": [(0, 3, 700), (1, 4, 900), (2, 4, 900), (3, 4, 900)], "thr": 512, "dfs": ["b"], "form": "single"}


# FX-C12-ties-disconnected (fixed by the tie-break in the ORDER BY of both windows): three tied edges
# at a hub; without the tie-break SQLite returned a disconnected cluster deterministically (DuckDB
# for some row orders).  Replayed on every run: a regression is reported as a plain violation.
KF_WITNESS = {"backend": "sqlite", "names": ["b", "c", "ds_x"],
              "nodes": [("b", 1), ("c", 2), ("b", 30), ("c", 11), ("ds_x", 101)],
              "edges": [(3, 4, 800), (1, 4, 800), (2, 4, 800), (1, 0, 845)],
              "thr": 0, "dfs": ["c"], "form": "single", "ties_wanted": True}


def known_witnesses(ctx: Ctx):
    case = dict(KF_WITNESS)
    trace, final = run_impl(case)
    problems = [p for p in oracle(case, final) if p[0] == "connectivity"]
    ctx.cov["evaluations"] += 1
    if problems:
        info, _ = case_term(case, trace, final)
        rep = describe(case, trace, final, info)
        rep["failure"] = {"kind": "connectivity", "detail": problems[0][1]}
        ctx.violation("cluster_using_single_best_links: with tied probabilities a returned cluster is not connected "
                      "(row_number windows without tie-breaker)", rep, features_of(case, "connectivity"))
    else:
        ctx.expect_known("FX-C12-ties-disconnected", False, "the witness yields connected clusters")


# FX-C12-history-stale-output (fixed in /repo 0a6ad70f; a regression is reported as a plain violation):
# same predictions name, same threshold and duplicate-free datasets, same
# number of iterations, first result still alive -> the second call returns the first call's clusters
HIST_WITNESS = {"backend": "duckdb", "names": ["a", "b"], "nodes": [("a", 0), ("b", 1), ("a", 2), ("b", 3)],
                "thr": 512, "thr_weight": None, "dfs": ["a", "b"], "form": "single", "ties_wanted": False}


def history_witness(ctx: Ctx):
    for backend in ("duckdb", "sqlite"):
        c1 = dict(HIST_WITNESS, backend=backend, edges=[(0, 1, 900)])
        c2 = dict(HIST_WITNESS, backend=backend, edges=[(2, 3, 900)])
        res = run_history([c1, c2], [True, True])
        trace, final = res[1]
        info, problems = case_term(c2, trace, final)
        problems = oracle(c2, final) + problems
        ctx.cov["evaluations"] += 1
        if problems:
            rep = describe(c2, trace, final, info)
            rep["history"] = {"calls": [c1, c2], "keep_output": [True, True]}
            rep["failing_call"] = 1
            rep["failure"] = {"kind": problems[0][0], "detail": problems[0][1]}
            ctx.violation("cluster_using_single_best_links depends on the linker's history: after re-registering the predictions "
                          f"the second call returns the first call's clusters while the first result is alive ({backend})", rep,
                          {"kind": "history_stale_output", "history": True, "outputs_kept": True, "backend": backend})
        else:
            ctx.expect_known("FX-C12-history-stale-output", False, "the second call returns its own clusters")


def correspondence(ctx: Ctx):
    quick = ctx.quick
    plan = [("duckdb", False, 110 if quick else 1500), ("duckdb", True, 110 if quick else 1500),
            ("sqlite", False, 90 if quick else 800), ("sqlite", True, 90 if quick else 800)]
    terms, metas = [], []
    reported = set()
    skipped_steps = 0

    def report(case, kind, detail, trace, final, info):
        f = features_of(case, kind)
        key = json.dumps(f, sort_keys=True)
        if key in reported:
            return
        reported.add(key)
        small = case
        try:
            small = shrink(case, py_disagrees)
            trace, final = run_impl(small)
            info, _ = case_term(small, trace, final)
        except Exception:
            pass
        rep = describe(small, trace, final, info)
        rep["failure"] = {"kind": kind, "detail": detail}
        ctx.violation(f"cluster_using_single_best_links: {kind} ({case['backend']}, {'ties' if f['ties'] else 'tie-free'})", rep, f)

    hists = []

    def report_hist(case, kind, detail, trace, final, info):
        """A call inside a multi-call history fails: the replay is the history up to that call."""
        h = hists[case["_hist"]["id"]]
        k = case["_hist"]["k"]
        f = dict(features_of(case, kind), history=True, calls_on_linker=k + 1,
                 outputs_kept=any(h["keep_output"][:k]))
        key = json.dumps(f, sort_keys=True)
        if key in reported:
            return
        reported.add(key)
        rep = describe(case, trace, final, info)
        rep["history"] = {"calls": h["calls"][:k + 1], "keep_output": h["keep_output"][:k + 1]}
        rep["failing_call"] = k
        rep["failure"] = {"kind": kind, "detail": detail}
        ctx.violation(f"cluster_using_single_best_links: {kind} in call {k + 1} on one linker after re-registering the predictions "
                      f"({case['backend']})", rep, f)

    def name_class(case):
        names = case["names"]
        return ("case-twins" if len({x.lower() for x in names}) < len(names)
                else "odd" if any(x not in ("a", "b", "c", "d", "ds_x", "Bq") for x in names) else "plain")

    def report_raise(case, ex, hist):
        """The implementation raises on an input for which the model has an answer."""
        ctx.count_case(json.dumps(case, sort_keys=True, default=str), False)
        f = {"kind": "raises", "error": type(ex).__name__, "backend": case["backend"], "dataset_names": name_class(case),
             "history": hist is not None, "no_threshold": bool(case.get("no_threshold"))}
        key = json.dumps(f, sort_keys=True)
        if key in reported:
            return
        reported.add(key)
        rep = {"case": case, "implementation": {"raised": f"{type(ex).__name__}: {str(ex)[:600]}"}}
        if hist is not None:
            rep["history"] = hist
        ctx.violation(f"cluster_using_single_best_links raises {type(ex).__name__} on an input with a defined answer "
                      f"(dataset names {case['names']}, duplicate-free {case['dfs']}, {case['backend']})", rep, f)

    def one(case, result=None):
        nonlocal skipped_steps
        if result is None:
            try:
                result = run_impl(case)
            except Exception as ex:  # noqa: BLE001
                report_raise(case, ex, None)
                return
        trace, final = result
        info, problems = case_term(case, trace, final)
        problems = oracle(case, final) + problems
        tf = tie_free(case)
        nontrivial = (len(trace) >= 3 and len({c for c, _, _ in final}) < len(final)
                      and any(ds in case["dfs"] for ds, _ in case["nodes"]))
        ctx.count_case(json.dumps(case, sort_keys=True), nontrivial,
                       {"backend": case["backend"], "nodes": len(case["nodes"]), "edges": len(case["edges"]),
                        "duplicate_free": case["dfs"], "threshold": float(fr(case["thr"])), "threshold_as_weight": case.get("thr_weight"), "iterations": len(trace), "tie_free": tf})
        ctx.hist("backend", case["backend"])
        ctx.hist("tie_free", tf)
        ctx.hist("n_datasets", len(case["names"]))
        ctx.hist("dataset_names", "case-twins" if len({x.lower() for x in case["names"]}) < len(case["names"])
                 else "odd" if any(not re.fullmatch(r"[A-Za-z_][A-Za-z_]*", x) or x.lower() in ("select", "group", "order") for x in case["names"]) else "plain")
        ctx.hist("n_duplicate_free", len(case["dfs"]))
        ctx.hist("iterations", len(trace))
        ctx.hist("form", case["form"])
        ctx.hist("duplicate_pair_rows", has_dup_pairs(case))
        for kind, detail in problems:
            (report_hist if "_hist" in case else report)(case, kind, detail, trace, final, info)
        if info is not None:
            skipped_steps += sum(1 for c in info["checked_steps"] if not c)
            terms.append(info["term"])
            metas.append((case, trace, final, info))

    for backend, ties, cnt in plan:
        for _ in range(cnt):
            case = gen_case(ctx.rng, backend, ties)
            one(case)
    # histories: several clusterings on one linker with re-registered predictions
    for backend in ("duckdb", "sqlite"):
        for _ in range(30 if quick else 300):
            h = gen_history(ctx.rng, backend)
            hists.append(h)
            try:
                res = run_history(h["calls"], h["keep_output"])
            except Exception as ex:  # noqa: BLE001
                report_raise(h["calls"][0], ex, {"calls": h["calls"], "keep_output": h["keep_output"]})
                continue
            ctx.hist("calls_per_linker", len(h["calls"]))
            for k, (c, r) in enumerate(zip(h["calls"], res)):
                c["_hist"] = {"id": len(hists) - 1, "k": k}
                ctx.hist("history_output_kept", h["keep_output"][k])
                one(c, r)
    # every non-empty subset of the datasets declared duplicate-free on one graph per size
    for k, backend in ((2, "duckdb"), (3, "sqlite"), (4, "duckdb"), (3, "duckdb"), (4, "sqlite")):
        base = None
        while base is None or len(base["names"]) != k:
            base = gen_case(ctx.rng, backend, ties=False)
        for r in range(1, k + 1):
            for sub in itertools.combinations(base["names"], r):
                c = dict(base)
                c["dfs"] = list(sub)
                one(c)
    # both thresholds are documented as optional: without one every edge is used (= threshold 0 for
    # probabilities).  FX-C12-no-threshold-raises: a call that raises is reported with its input.
    n_before = len(ctx.violations) + len(ctx.known_hits)
    no_thr = 0
    for backend in ("duckdb", "sqlite"):
        for _ in range(6 if quick else 60):
            c = gen_case(ctx.rng, backend, ties=False)
            c["thr"], c["thr_weight"] = 0, None
            c["no_threshold"] = True
            no_thr += 1
            one(c)
    raised = sum(1 for k in reported if '"kind": "raises"' in k and '"no_threshold": true' in k)
    ctx.cov["no_threshold_calls"] = no_thr
    ctx.cov["no_threshold_calls_raising_sql_error"] = raised
    ctx.obligation("cluster_using_single_best_links without a threshold does not raise", raised == 0)
    # the witness of C12_connected_ties_refuted: try to realise it on the engines
    realised = None
    perms = 6 if quick else 120
    for backend in ("duckdb", "sqlite"):
        for _ in range(perms):
            c = json.loads(json.dumps(WITNESS))
            c["backend"] = backend
            c["nodes"] = [tuple(x) for x in c["nodes"]]
            c["edges"] = [tuple(x) if ctx.rng.random() < 0.5 else (x[1], x[0], x[2]) for x in c["edges"]]
            ctx.rng.shuffle(c["edges"])
            c["ties_wanted"] = True
            if not quick:
                c["threads"] = ctx.rng.randint(1, 16)
            one(c)
    ctx.cov["steps_not_enumerated"] = skipped_steps
    ctx.obligation(f"every captured step was small enough for the allowed-step enumeration ({skipped_steps} skipped, limit {ENUM_LIMIT})",
                   skipped_steps == 0)
    weight_conversion_obligation(ctx)
    shapes = sorted({m for case, _, _, _ in metas for m in case.get("_order_modes", [])})
    ctx.cov["order_by_of_rank_windows"] = shapes
    ok_shape = bool(shapes) and all(m in ("prob", "tiebreak") for m in shapes) and len(shapes) == 1
    ctx.obligation("T: ORDER BY of the two row_number() windows in the emitted SQL is one of the two modelled rank orders", ok_shape, str(shapes))
    if not ok_shape:
        ctx.violation("the ORDER BY of the rank windows emitted by one_to_one_clustering.py is not a modelled rank order: " + str(shapes),
                      {"broken": "translator c12 order_mode", "shapes": shapes}, {"untranslatable": True}, found_input=False)
    for case, _, _, info in metas:
        ctx.hist("deterministic_mode", info["mode"])

    bad, errs = ctx.eval_cases("C12_x", HEADER, terms, "run_case", shard=60)
    for e in errs:
        ctx.obligation("correspondence shard evaluation", False, e)
    ctx.obligation(f"correspondence: captured trajectories allowed by / equal to the Gallina model on {len(terms)} runs",
                   not bad and not errs)
    for i in bad:
        case, trace, final, info = metas[i]
        (report_hist if "_hist" in case else report)(
            case, "step_not_allowed_by_model" if not tie_free(case) else "trajectory_differs_from_model",
            {"checked_steps": info["checked_steps"]}, trace, final, info)
    if errs and not bad:
        ctx.violation("correspondence C12_x could not be evaluated", {"broken": "C12_x", "errors": errs}, found_input=False)
    known_witnesses(ctx)
    history_witness(ctx)


def replay(ctx: Ctx):
    """./check C12 --replay file : re-run just that case."""
    d = json.loads(open(ctx.replay).read())
    case = d["case"]
    case["nodes"] = [tuple(x) for x in case["nodes"]]
    case["edges"] = [tuple(x) for x in case["edges"]]
    case.pop("_hist", None)
    if "history" in d:
        calls = d["history"]["calls"]
        for c in calls:
            c["nodes"] = [tuple(x) for x in c["nodes"]]
            c["edges"] = [tuple(x) for x in c["edges"]]
            c.pop("_hist", None)
        trace, final = run_history(calls, d["history"]["keep_output"])[-1]
        case = calls[-1]
    else:
        trace, final = run_impl(case)
    info, problems = case_term(case, trace, final)
    problems = oracle(case, final) + problems
    ctx.count_case(json.dumps(case, sort_keys=True), True, {"replay": ctx.replay})
    bad, errs = ([], [])
    if info is not None:
        bad, errs = ctx.eval_cases("C12_replay", HEADER, [info["term"]], "run_case", shard=1)
    ctx.obligation("replayed case agrees with the model and the property oracle", not problems and not bad and not errs)
    if problems or bad or errs:
        kind = problems[0][0] if problems else ("trajectory_differs_from_model" if tie_free(case) else "step_not_allowed_by_model")
        rep = describe(case, trace, final, info)
        rep["failure"] = {"kind": kind, "detail": problems[0][1] if problems else {}}
        ctx.violation(f"replay: {kind}", rep, features_of(case, kind))


# --------------------------------------------------------------------------------------------
# C13 witness (C13_oto_injective_relabel_ties_refuted): with tied probabilities the tie-break by
# node id makes the single-best-link PARTITION depend on the labels.  The relabelled copy renames
# datasets and unique ids so that the order of the composite ids is exactly reversed (phi x = 4-x).
RELABEL_WITNESS = {
    "orig": {"names": ["b", "c", "ds_x"], "dfs": ["c"],
             "nodes": [("b", 1), ("b", 30), ("c", 11), ("c", 2), ("ds_x", 101)]},     # ranks 0..4
    "relabelled": {"names": ["z", "y", "a"], "dfs": ["y"],
                   "nodes": [("z", 2), ("z", 1), ("y", 2), ("y", 1), ("a", 101)]},      # ranks 4,3,2,1,0
    "edges": [(2, 4, 800), (3, 4, 800), (1, 4, 800), (3, 0, 845)], "thr": 0,
}


def relabel_ties_witness(backend):
    """Runs the REAL cluster_using_single_best_links on the witness and on its relabelled copy.
    Returns (reproduced, details): reproduced iff the two partitions (as sets of record indexes)
    differ.  The model predicts {0,3},{1,2,4} for the original and {0,1,3,4},{2} for the copy."""
    parts = {}
    for which in ("orig", "relabelled"):
        w = RELABEL_WITNESS[which]
        case = {"backend": backend, "names": w["names"], "nodes": w["nodes"], "edges": list(RELABEL_WITNESS["edges"]),
                "thr": RELABEL_WITNESS["thr"], "thr_weight": None, "dfs": w["dfs"], "form": "single", "ties_wanted": True}
        keys = sorted(composite(ds, u) for ds, u in w["nodes"])
        assert [keys.index(composite(ds, u)) for ds, u in w["nodes"]] == ([0, 1, 2, 3, 4] if which == "orig" else [4, 3, 2, 1, 0])
        trace, final = run_impl(case)
        idx = {tuple(n): i for i, n in enumerate(w["nodes"])}
        clusters = {}
        for c, ds, u in final:
            clusters.setdefault(c, set()).add(idx[(ds, u)])
        parts[which] = sorted(sorted(m) for m in clusters.values())
    reproduced = parts["orig"] != parts["relabelled"]
    return reproduced, {"backend": backend, "partition_original": parts["orig"], "partition_relabelled": parts["relabelled"],
                        "model_predicts": {"original": [[0, 3], [1, 2, 4]], "relabelled": [[0, 1, 3, 4], [2]]},
                        "witness": {k: (v if k in ("edges", "thr") else {**v, "nodes": [list(n) for n in v["nodes"]]})
                                    for k, v in RELABEL_WITNESS.items()},
                        "note": "record indexes refer to witness.*.nodes (same position = same record); probabilities are k/1024"}
