"""C03 correspondence: real EM training sessions on DuckDB / SQLite vs the Gallina model
(Model/EM.v) evaluated inside Coq, one EM step at a time.

For every session the harness captures, by wrapping the DatabaseAPI from the outside, the
comparison-vector table (or agreement-pattern counts) the session really used, reads the
linker's model before and after, and the session's iteration history.  One Coq case per session
holds all of that as exact rationals (Fraction of the engine floats); `run_case` recomputes
  s1  the session start (deactivated comparisons, blocking-adjusted prior),
  s2  every iteration k -> k+1 with the model's `em_step` from the implementation's iteration k,
  s3  the stop rule,
  s4  the trained-value bookkeeping and median aggregation (`finish_session`),
  s5  the agreement-pattern table (= GROUP BY of the captured comparison vectors)
and compares in Q with relative tolerance 1e-9 (+1e-12 absolute)."""
from __future__ import annotations

import copy
import json
import math
from fractions import Fraction

import pandas as pd

from harness import splink_util as su
from harness.common import Ctx, coq_bool, coq_list, coq_nat, coq_Q, coq_string, coq_Z

NOT_OBS = "level not observed in training dataset"

HEADER = r"""From Coq Require Import String Ascii.
From Coq Require Import List ZArith QArith Qreduction Qabs Qminmax Qround Bool Arith.
From Splinkv Require Import Model.EM.
Import ListNotations.
Open Scope Q_scope.
Definition tolr : Q := 1 # 1000000000.
Definition tola : Q := 1 # 1000000000000.
Definition qclose (a b : Q) : bool := Qle_bool (Qabs (a - b)) (tolr * Qmax (Qabs a) (Qabs b) + tola).
Definition pclose (a b : pval) : bool :=
  match a, b with Val x, Val y => qclose x y | NotObserved, NotObserved => true | _, _ => false end.
Definition lclose (a b : level) : bool :=
  Z.eqb (lv_val a) (lv_val b) && pclose (lv_m a) (lv_m b) && pclose (lv_u a) (lv_u b).
Fixpoint all2 {A : Type} (f : A -> A -> bool) (a b : list A) : bool :=
  match a, b with [], [] => true | x :: s, y :: t => f x y && all2 f s t | _, _ => false end.
Definition params_close (a b : params) : bool := qclose (lam a) (lam b) && all2 (all2 lclose) (cmps a) (cmps b).
Definition mlclose (a b : mlevel) : bool :=
  lclose (ml_lv a) (ml_lv b) && all2 pclose (ml_tm a) (ml_tm b) && all2 pclose (ml_tu a) (ml_tu b).
Definition mcclose (a b : mcmp) : bool := String.eqb (mc_name a) (mc_name b) && all2 mlclose (mc_levels a) (mc_levels b).
Definition model_close (a b : model) : bool := qclose (md_lam a) (md_lam b) && all2 mcclose (md_cmps a) (md_cmps b).
Definition L v m u fm fu tf := {| lv_val := v; lv_m := m; lv_u := u; lv_fixm := fm; lv_fixu := fu; lv_tfu := tf |}.
Definition ML l tm tu ex := {| ml_lv := l; ml_tm := tm; ml_tu := tu; ml_exact := ex |}.
Definition MC n cols ls := {| mc_name := n; mc_cols := cols; mc_levels := ls |}.
Definition P l cs := {| lam := l; cmps := cs |}.
Definition FL a b c := {| fix_m := a; fix_u := b; fix_lam := c |}.
Definition idn (s : string) := s.
Definition variant_nb (v : nat) : string -> string := match v with 1%nat => lower | _ => idn end.
Definition variant_nl (v : nat) : string -> string := match v with 2%nat => idn | _ => lower end.
Record case := { c_before : model; c_br : list string; c_fl : flags; c_conv : Q; c_maxit : nat;
                 c_data : list drow; c_hist : list params; c_after : model; c_check_stop : bool;
                 c_rows : list (list Z); c_pats : option (list (list Z * positive)) }.
(* the model's E-step, with each match probability rounded down to a multiple of 2^-80 (keeps
   the rationals small; the perturbation is < 1e-24, far below the comparison tolerance) *)
Definition two80 : positive := Pos.pow 2 80.
Definition round80 (q : Q) : Q := Qred (Qmake (Qfloor (q * inject_Z (Zpos two80))) two80).
Definition em_step_r (fl : flags) (p : params) (data : list drow) : params :=
  mstep fl p (map (fun r => (sg r, sw r, round80 (sp r))) (estep p data)).
Fixpoint steps_ok (fl : flags) (data : list drow) (h : list params) : bool :=
  match h with
  | p :: ((p' :: _) as t) => params_close (em_step_r fl p data) p' && steps_ok fl data t
  | _ => true
  end.
(* every pair but the last must NOT satisfy the stop test; the last pair satisfies it unless
   max_iterations was exhausted *)
Fixpoint stop_ok (conv : Q) (left : nat) (h : list params) : bool :=
  match h with
  | p :: ((p' :: t') as t) =>
      match t' with
      | [] => Qlt_bool (max_change p p') conv || Nat.eqb left 1
      | _ => negb (Qlt_bool (max_change p p') conv) && stop_ok conv (pred left) t
      end
  | _ => false
  end.
Definition pat_eqb (a b : list Z * positive) : bool := gvec_eqb (fst a) (fst b) && Pos.eqb (snd a) (snd b).
Definition pats_ok (rows : list (list Z)) (pats : option (list (list Z * positive))) : bool :=
  match pats with
  | None => true
  | Some ps => let mine := count_patterns rows in
               Nat.eqb (List.length mine) (List.length ps) &&
               forallb (fun x => existsb (pat_eqb x) ps) mine && forallb (fun x => existsb (pat_eqb x) mine) ps
  end.
Definition stages (c : case) : list bool :=
  let st := start_params lower lower (c_br c) (c_before c) in
  [ match c_hist c with h0 :: _ => params_close st h0 | [] => false end;
    steps_ok (c_fl c) (c_data c) (c_hist c);
    if c_check_stop c then stop_ok (c_conv c) (c_maxit c) (c_hist c) else true;
    model_close (finish_session (c_fl c) (c_br c) (last (c_hist c) st) (c_before c)) (c_after c);
    pats_ok (c_rows c) (c_pats c) ].
Definition run_case (c : case) : bool := forallb (fun b => b) (stages c).
(* prior-adjustment variants: 0 = level names lower-cased only (code before fix 6a6654d9),
   1 = both sides lower-cased (code today), 2 = names compared as they are (specification) *)
Definition prior_case (x : nat * model * list string * Q) : bool :=
  match x with (v, m, br, impl) => qclose (adjusted_prior (variant_nl v) (variant_nb v) br m) impl end.
"""

# ------------------------------------------------------------------------------------------
# generator
# ------------------------------------------------------------------------------------------
# column names "whatever they look like": upper case, SQL keywords, embedded space
COLS = ["a", "Surname", "c", "group", "first name", "index"]
DOMS = {"a": ["xa", "xb", "ya", "yb", None], "Surname": ["p", "q", "r", None, None], "c": ["s", "t", "u"],
        "group": ["k", "l"], "first name": ["ma", "mb", "na", None], "index": ["v", "w", "w", None]}


def dec(rng, lo=5, hi=95):
    return rng.randint(lo, hi) / 100.0


def split_probs(rng, n):
    """n short decimals in (0,1) summing to 1."""
    while True:
        cuts = sorted(rng.sample(range(1, 20), n - 1))
        parts = [b - a for a, b in zip([0] + cuts, cuts + [20])]
        if all(p > 0 for p in parts):
            return [p / 20.0 for p in parts]


def gen_comparison(rng, col, other, backend, allow_tf, upper=None):
    """Custom comparison dict on column `col` + generator ground truth (`exact` per level)."""
    qc = "`" if backend == "spark" else '"'      # identifier quoting of the backend's dialect
    q = lambda c: f"{qc}{c}{qc}"  # noqa: E731
    kind = rng.choice(["exact", "exact", "prefix", "never", "nonull", "multi", "asym"])
    levels = []
    truth = []
    if kind != "nonull":
        levels.append({"sql_condition": f'{q(col + "_l")} IS NULL OR {q(col + "_r")} IS NULL', "label_for_charts": "null", "is_null_level": True})
    name = col
    tfcol = col if (allow_tf and rng.random() < 0.35 and kind != "multi") else None
    if kind == "multi":
        name = f"{col}{other}"
        levels.append({"sql_condition": f'{q(col + "_l")} = {q(col + "_r")} AND {q(other + "_l")} = {q(other + "_r")}', "label_for_charts": "both"})
        truth.append([col, other])
        levels.append({"sql_condition": f'{q(col + "_l")} = {q(col + "_r")}', "label_for_charts": "one"})
        truth.append([col])
    else:
        lv = {"sql_condition": f'{q(col + "_l")} = {q(col + "_r")}', "label_for_charts": "exact"}
        if tfcol:
            lv["tf_adjustment_column"] = tfcol
        levels.append(lv)
        truth.append([col])
        if kind == "prefix":
            lv = {"sql_condition": f'substr({q(col + "_l")},1,1) = substr({q(col + "_r")},1,1)', "label_for_charts": "prefix"}
            if tfcol and rng.random() < 0.5:
                lv["tf_adjustment_column"] = tfcol
            levels.append(lv)
            truth.append(None)
        if kind == "never":
            levels.append({"sql_condition": f"{q(col + '_l')} = 'never_seen'", "label_for_charts": "never"})
            truth.append(None)
        if kind == "asym":      # depends on which record is on the left: orientation matters
            levels.append({"sql_condition": f"{q(col + '_l')} = '{DOMS[col][0]}'", "label_for_charts": "asym"})
            truth.append(None)
    levels.append({"sql_condition": "ELSE", "label_for_charts": "else"})
    truth.append(None)
    nn = [lv for lv in levels if not lv.get("is_null_level")]
    ms, us = split_probs(rng, len(nn)), split_probs(rng, len(nn))
    for lv, m, u in zip(nn, ms, us):
        lv["m_probability"], lv["u_probability"] = m, u
    return {"output_column_name": name, "comparison_levels": levels}, {"name": name, "exact": truth, "tfcol": tfcol, "asym_val": DOMS[col][0],
                                                                     "cols": [col, other] if kind == "multi" else [col]}


def gen_case(rng, backend, level_fix=False):
    lt = rng.choice(["dedupe_only", "dedupe_only", "link_only"])
    n = rng.randint(16, 30)
    cols = rng.sample(COLS, 5)
    rows = [dict(unique_id=i, **{c: rng.choice(DOMS[c]) for c in cols}) for i in range(n)]
    tables = [rows] if lt == "dedupe_only" else [rows[: n // 2], rows[n // 2:]]
    ccols = rng.sample(cols, rng.choice([3, 4]))
    comps, truths = [], []
    for c in ccols:
        other = rng.choice([x for x in cols if x != c])
        cd, tr = gen_comparison(rng, c, other, backend, allow_tf=True)
        comps.append(cd)
        truths.append(tr)
    if level_fix:
        nn = [lv for lv in comps[0]["comparison_levels"] if not lv.get("is_null_level")]
        rng.choice(nn)[rng.choice(["fix_m_probability", "fix_u_probability"])] = True
    sessions = []
    for _ in range(rng.choice([1, 2, 2, 3])):
        r = rng.random()
        if r < 0.55:
            rcols = [rng.choice(cols)]
        elif r < 0.85:
            rcols = rng.sample(cols, 2)
        else:
            rcols = []
        if rcols:
            qc = "`" if backend == "spark" else '"'
            rule = " AND ".join(f"l.{qc}{c}{qc} = r.{qc}{c}{qc}" for c in rcols)
        else:
            rule = "1=1"
        fm, fu = rng.choice([(False, False), (False, True), (False, True), (True, False)])
        sessions.append({"rule": rule, "fix_m": fm, "fix_u": fu, "fix_lam": rng.random() < 0.3,
                         "ewtf": rng.random() < 0.5})
    return {"backend": backend, "link_type": lt, "tables": tables, "comparisons": comps, "truth": truths,
            "prior": rng.choice([0.05, 0.1, 0.2, 0.3]), "max_iterations": rng.choice([2, 3, 4]),
            "em_convergence": rng.choice([1e-12, 1e-12, 0.01, 0.05]), "sessions": sessions}


# ------------------------------------------------------------------------------------------
# running the real code
# ------------------------------------------------------------------------------------------
class Capture:
    """Wraps one DatabaseAPI instance from the outside and keeps the rows of chosen tables."""
    WANT = ("__splink__df_comparison_vectors", "__splink__agreement_pattern_counts", "__splink__m_u_counts")

    def __init__(self, api):
        self.tables = []
        orig = api.sql_pipeline_to_splink_dataframe

        def wrapped(pipeline, use_cache=True):
            df = orig(pipeline, use_cache)
            if df.templated_name in self.WANT:
                self.tables.append((df.templated_name, df.as_record_dict()))
            return df
        api.sql_pipeline_to_splink_dataframe = wrapped

    def take(self):
        t, self.tables = self.tables, []
        return t


def frames(case, plain_objects=False):
    out = []
    for tab in case["tables"]:
        d = pd.DataFrame(tab)
        for c in d.columns:
            if c != "unique_id":
                d[c] = d[c].astype(object).where(d[c].notna(), None) if plain_objects else d[c].astype("string")
        out.append(d)
    return out


def make_linker(case, api=None):
    from splink import SettingsCreator
    s = SettingsCreator(link_type=case["link_type"], comparisons=copy.deepcopy(case["comparisons"]),
                        probability_two_random_records_match=case["prior"],
                        max_iterations=case["max_iterations"], em_convergence=case["em_convergence"])
    tabs = frames(case, plain_objects=api is not None)
    return su.linker(tabs, s, case["backend"], aliases=["ta", "tb", "tc"][:len(tabs)] if len(tabs) > 1 else None, api=api)


def pv(raw, read):
    return "NO" if isinstance(raw, str) and raw == NOT_OBS else Fraction(read)


def gcol(nm):
    return "gamma_" + nm.replace(" ", "_")      # Comparison._gamma_column_name


def truth_of(case, name):
    return next(t for t in case["truth"] if t["name"] == name)


def read_levels(case, cc, with_tf):
    tr = truth_of(case, cc.output_column_name)
    nn = cc._comparison_levels_excluding_null
    out = []
    for k, cl in enumerate(nn):
        tfu = None
        if with_tf and cl._has_tf_adjustments and not cl._is_else_level and tr["tfcol"]:
            tfu = next(j for j, e in enumerate(tr["exact"]) if e == [tr["tfcol"]])
        out.append({"val": cl.comparison_vector_value, "m": pv(cl._m_probability, cl.m_probability),
                    "u": pv(cl._u_probability, cl.u_probability), "fixm": bool(cl._fix_m_probability),
                    "fixu": bool(cl._fix_u_probability), "tfu": tfu,
                    "tm": [pv(r["probability"], r["probability"] if not isinstance(r["probability"], str) else 0) for r in cl._trained_m_probabilities],
                    "tu": [pv(r["probability"], r["probability"] if not isinstance(r["probability"], str) else 0) for r in cl._trained_u_probabilities],
                    "exact": tr["exact"][k], "impl_exact": bool(cl._is_exact_match)})
    return out


def read_model(case, cms, with_tf):
    return {"lam": Fraction(cms.probability_two_random_records_match),
            "cmps": [{"name": cc.output_column_name, "cols": truth_of(case, cc.output_column_name)["cols"],
                      "levels": read_levels(case, cc, with_tf)} for cc in cms.comparisons]}


def run_sessions(case, only=None, api=None):
    """Run the case's sessions on the real code; one record per session."""
    from splink.internals.parse_sql import get_columns_used_from_sql
    lk = make_linker(case, api=api)
    cap = Capture(lk._db_api)
    dialect = lk._db_api.sql_dialect.sqlglot_dialect
    recs = []
    for si, s in enumerate(case["sessions"]):
        with_tf = not s["ewtf"]
        before = read_model(case, lk._settings_obj.core_model_settings, with_tf)
        cap.take()
        try:
            sess = lk.training.estimate_parameters_using_expectation_maximisation(
                s["rule"], estimate_without_term_frequencies=s["ewtf"], fix_m_probabilities=s["fix_m"],
                fix_u_probabilities=s["fix_u"], fix_probability_two_random_records_match=s["fix_lam"])
        except Exception as e:  # no pairs / nothing to train: not in the property's quantifier
            recs.append({"skipped": repr(e)[:200], "session": si, "before": before,
                         "br_cols": sorted(get_columns_used_from_sql(s["rule"], sqlglot_dialect=dialect))})
            break
        tabs = cap.take()
        hist = [read_model(case, h, with_tf) for h in sess._core_model_settings_history]
        after = read_model(case, lk._settings_obj.core_model_settings, with_tf)
        cvv = next(r for n, r in tabs if n == "__splink__df_comparison_vectors")
        pats = next((r for n, r in tabs if n == "__splink__agreement_pattern_counts"), None)
        mu = [r for n, r in tabs if n == "__splink__m_u_counts"]
        active = [c["name"] for c in hist[0]["cmps"]]
        rows = [[int(r[gcol(nm)]) for nm in active] for r in cvv]
        if s["ewtf"]:
            data = [([int(p[gcol(nm)]) for nm in active], Fraction(int(p["agreement_pattern_count"])), []) for p in pats]
        else:
            data = []
            for r in cvv:
                tfs = []
                for nm in active:
                    tc = truth_of(case, nm)["tfcol"]
                    a, b = (r.get(f"tf_{tc}_l"), r.get(f"tf_{tc}_r")) if tc else (None, None)
                    a, b = (None if x is None or x != x else x for x in (a, b))     # NaN (Spark via pandas) is NULL
                    a, b = (a if a is not None else b), (b if b is not None else a)
                    tfs.append(None if a is None else Fraction(max(a, b)))
                data.append(([int(r[gcol(nm)]) for nm in active], Fraction(1), tfs))
        recs.append({"session": si, "before": before, "after": after, "hist": hist, "data": data, "rows": rows,
                     "pats": None if pats is None else [([int(p[gcol(nm)]) for nm in active], int(p["agreement_pattern_count"])) for p in pats],
                     "br_cols": sorted(get_columns_used_from_sql(s["rule"], sqlglot_dialect=dialect)),
                     "mu_counts": mu, "flags": s, "saved": lk.misc.save_model_to_json()})
    return recs


# ------------------------------------------------------------------------------------------
# Coq terms
# ------------------------------------------------------------------------------------------
def c_pval(x):
    return "NotObserved" if x == "NO" else f"(Val {coq_Q(x)})"


def c_level(l):
    tf = "None" if l["tfu"] is None else f"(Some {coq_nat(l['tfu'])})"
    return f"(L {coq_Z(l['val'])} {c_pval(l['m'])} {c_pval(l['u'])} {coq_bool(l['fixm'])} {coq_bool(l['fixu'])} {tf})"


def c_params(p):
    return f"(P {coq_Q(p['lam'])} {coq_list([coq_list([c_level(l) for l in c['levels']], 'level') for c in p['cmps']], 'cmp')})"


def c_model(m):
    cs = []
    for c in m["cmps"]:
        ls = []
        for l in c["levels"]:
            ex = "None" if l["exact"] is None else f"(Some {coq_list([coq_string(x) for x in l['exact']], 'string')})"
            ls.append(f"(ML {c_level(l)} {coq_list([c_pval(x) for x in l['tm']], 'pval')} {coq_list([c_pval(x) for x in l['tu']], 'pval')} {ex})")
        cs.append(f"(MC {coq_string(c['name'])} {coq_list([coq_string(x) for x in c['cols']], 'string')} {coq_list(ls, 'mlevel')})")
    return f"{{| md_lam := {coq_Q(m['lam'])}; md_cmps := {coq_list(cs, 'mcmp')} |}}"


def c_gvec(g):
    return coq_list([coq_Z(x) for x in g], "Z")


def c_data(data):
    return coq_list([f"({c_gvec(g)}, {coq_Q(w)}, {coq_list(['None' if t is None else f'(Some {coq_Q(t)})' for t in tfs], '(option Q)')})"
                     for g, w, tfs in data], "drow")


def check_stop_flag(case, rec):
    """False when some max change is so close to em_convergence that float rounding could flip
    the stop test (those sessions skip stage s3 only)."""
    conv = case["em_convergence"]
    for a, b in zip(rec["hist"], rec["hist"][1:]):
        ch = abs(float(b["lam"]) - float(a["lam"]))
        for ca, cb in zip(a["cmps"], b["cmps"]):
            for la, lb in zip(ca["levels"], cb["levels"]):
                for k in ("m", "u"):
                    x = 1e-6 if la[k] == "NO" else float(la[k])
                    y = 1e-6 if lb[k] == "NO" else float(lb[k])
                    ch = max(ch, abs(y - x))
        if abs(ch - conv) <= 1e-7 * max(conv, 1e-300) + 1e-15:
            return False
    return True


def case_term(case, rec):
    s = rec["flags"]
    pats = "None" if rec["pats"] is None else "(Some " + coq_list([f"({c_gvec(g)}, {n}%positive)" for g, n in rec["pats"]], "(list Z * positive)") + ")"
    return ("{| c_before := " + c_model(rec["before"]) + "; c_br := " + coq_list([coq_string(x) for x in rec["br_cols"]], "string") +
            f"; c_fl := FL {coq_bool(s['fix_m'])} {coq_bool(s['fix_u'])} {coq_bool(s['fix_lam'])}; c_conv := {coq_Q(Fraction(case['em_convergence']))}; "
            f"c_maxit := {coq_nat(case['max_iterations'])}; c_data := {c_data(rec['data'])}; "
            f"c_hist := {coq_list([c_params(h) for h in rec['hist']], 'params')}; c_after := {c_model(rec['after'])}; "
            f"c_check_stop := {coq_bool(check_stop_flag(case, rec))}; c_rows := {coq_list([c_gvec(g) for g in rec['rows']], '(list Z)')}; c_pats := {pats} |}}")


# ------------------------------------------------------------------------------------------
# independent Python reference EM (exact Fractions): oracle for reports and log-likelihood
# ------------------------------------------------------------------------------------------
def rdv(x):
    return Fraction(1, 1000000) if x == "NO" else x


def py_posterior(p, g, tfs):
    if p["lam"] == 1:
        return Fraction(1)
    bf = p["lam"] / (1 - p["lam"])
    for i, c in enumerate(p["cmps"]):
        if g[i] == -1:
            continue
        lv = next(l for l in c["levels"] if l["val"] == g[i])
        bf *= rdv(lv["m"]) / rdv(lv["u"])
        if lv["tfu"] is not None and i < len(tfs) and tfs[i] is not None:
            bf *= rdv(c["levels"][lv["tfu"]]["u"]) / tfs[i]
    return bf / (1 + bf)


def py_em_step(p, data, s):
    """Textbook EM: new m(v) = sum_{g_i=v} w p / sum_{g_i != -1} w p, NotObserved when no row has g_i = v."""
    post = [(g, w, py_posterior(p, g, tfs)) for g, w, tfs in data]
    out = {"lam": p["lam"], "cmps": []}
    if not s["fix_lam"]:
        out["lam"] = sum(w * q for _, w, q in post) / sum(w for _, w, _ in post)
    for i, c in enumerate(p["cmps"]):
        dm = sum(w * q for g, w, q in post if g[i] != -1)
        du = sum(w * (1 - q) for g, w, q in post if g[i] != -1)
        ls = []
        for l in c["levels"]:
            l2 = dict(l)
            seen = any(g[i] == l["val"] for g, _, _ in post)
            if not (s["fix_m"] or l["fixm"]):
                l2["m"] = (sum(w * q for g, w, q in post if g[i] == l["val"]) / dm) if seen else "NO"
            if not (s["fix_u"] or l["fixu"]):
                l2["u"] = (sum(w * (1 - q) for g, w, q in post if g[i] == l["val"]) / du) if seen else "NO"
            ls.append(l2)
        out["cmps"].append({"name": c["name"], "levels": ls})
    return out


def close(a, b):
    if a == "NO" or b == "NO":
        return a == b
    return abs(a - b) <= Fraction(1, 10**9) * max(abs(a), abs(b)) + Fraction(1, 10**12)


def py_params_close(a, b):
    return close(a["lam"], b["lam"]) and len(a["cmps"]) == len(b["cmps"]) and all(
        len(ca["levels"]) == len(cb["levels"]) and all(la["val"] == lb["val"] and close(la["m"], lb["m"]) and close(la["u"], lb["u"])
                                                       for la, lb in zip(ca["levels"], cb["levels"]))
        for ca, cb in zip(a["cmps"], b["cmps"]))


def loglik(p, data):
    """Observed-data log-likelihood of a no-TF model (floats; this trace is a TEST, the theorem
    is C03_likelihood_monotone)."""
    tot = 0.0
    for g, w, _ in data:
        pm, pu = 1.0, 1.0
        for i, c in enumerate(p["cmps"]):
            if g[i] == -1:
                continue
            lv = next(l for l in c["levels"] if l["val"] == g[i])
            pm *= float(rdv(lv["m"]))
            pu *= float(rdv(lv["u"]))
        lam = float(p["lam"])
        tot += float(w) * math.log(lam * pm + (1 - lam) * pu)
    return tot


def jsonable(x):
    if isinstance(x, Fraction):
        return float(x)
    if isinstance(x, dict):
        return {k: jsonable(v) for k, v in x.items()}
    if isinstance(x, (list, tuple)):
        return [jsonable(v) for v in x]
    return x


def py_median(vals):
    v = sorted(vals)
    n = len(v)
    if n == 0:
        return None
    return v[n // 2] if n % 2 else (v[n // 2 - 1] + v[n // 2]) / 2


def oracle_session(case, rec):
    """Property oracle evaluated directly on the implementation's output, independently of Coq.
    Returns a list of (what, detail) failures."""
    fails = []
    s = rec["flags"]
    # deactivation: comparisons sharing a column with the rule are neither trained nor changed
    # SQL identifiers are case-insensitive on these engines: l.surname IS the column Surname
    brl = {x.lower() for x in rec["br_cols"]}
    deact = [c["name"] for c in rec["before"]["cmps"] if {x.lower() for x in c["cols"]} & brl]
    trained = [c["name"] for c in rec["hist"][0]["cmps"]]
    if trained != [c["name"] for c in rec["before"]["cmps"] if c["name"] not in deact]:
        fails.append(("deactivation", {"trained": trained, "should_be_deactivated": deact}))
    for cb, ca in zip(rec["before"]["cmps"], rec["after"]["cmps"]):
        if cb["name"] in deact and any(lb["tm"] != la["tm"] or lb["tu"] != la["tu"] for lb, la in zip(cb["levels"], ca["levels"])):
            fails.append(("deactivated comparison received estimates", {"comparison": cb["name"]}))
    # every iteration is a reference EM step
    for k, (a, b) in enumerate(zip(rec["hist"], rec["hist"][1:])):
        ref = py_em_step(a, rec["data"], s)
        if not py_params_close(ref, b):
            fails.append(("iteration is not a reference EM step", {"iteration": k + 1, "implementation": jsonable(b), "specification": jsonable(ref)}))
            break
        for c in b["cmps"]:
            for key, fixed in (("m", s["fix_m"]), ("u", s["fix_u"])):
                if fixed or any(l["fix" + key] for l in c["levels"]):
                    continue
                if all(l[key] == "NO" for l in c["levels"]):
                    continue        # every pair is null on this comparison: nothing observed
                tot = sum(l[key] for l in c["levels"] if l[key] != "NO")
                if abs(tot - 1) > Fraction(1, 10**9):
                    fails.append((f"{key} values do not sum to 1", {"iteration": k + 1, "comparison": c["name"], "sum": float(tot)}))
    # fixed parameters do not move
    for a, b in zip(rec["hist"], rec["hist"][1:]):
        if s["fix_lam"] and a["lam"] != b["lam"]:
            fails.append(("fixed probability_two_random_records_match moved", {}))
        for ca, cb in zip(a["cmps"], b["cmps"]):
            for la, lb in zip(ca["levels"], cb["levels"]):
                if (s["fix_m"] or la["fixm"]) and la["m"] != lb["m"]:
                    fails.append(("fixed m moved", {"comparison": ca["name"], "level": la["val"]}))
                if (s["fix_u"] or la["fixu"]) and la["u"] != lb["u"]:
                    fails.append(("fixed u moved", {"comparison": ca["name"], "level": la["val"]}))
    # median aggregation
    for c in rec["after"]["cmps"]:
        for l in c["levels"]:
            for key, tk in (("m", "tm"), ("u", "tu")):
                vals = [x for x in l[tk] if x != "NO"]
                if vals and not l["fix" + key] and not close(l[key], py_median(vals)):
                    fails.append((f"model {key} is not the median of the session estimates",
                                  {"comparison": c["name"], "level": l["val"], "estimates": jsonable(vals), "model": float(l[key])}))
    return fails
