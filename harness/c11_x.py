"""C11 correspondence: the real cluster_pairwise_predictions_at_multiple_thresholds (DuckDB and
SQLite; probability and match-weight thresholds; detailed and summary-statistics output) against
the Gallina model `multi` / `cluster_stats` (Model/MultiThr.v) and the proved spec `comp_labels`,
evaluated inside Coq.  Cases reuse the graph families and id schemes of C05 (harness/c05_x.py).

case = C05 case fields (backend, idkind, nodes, edges [l, r, k] with probability k/1024) plus
  thresholds  ["p", [k, ...]] (probabilities k/1024, any order, duplicates allowed) |
              ["wf", [w, ...]] (any float match weights; edge probabilities may then be floats) |
              ["w", [w, ...]] (integer match weights)
  stats       bool (output_cluster_summary_stats)
"""
from __future__ import annotations

from fractions import Fraction

import pandas as pd

from harness import c05_guard as G
from harness import c05_x as X5
from harness import splink_util as su
from harness.common import coq_Q, coq_Z, coq_bool, coq_list

HEADER = """From Coq Require Import ZArith List Bool QArith.
From Splinkv Require Import Base.Graph Model.CC Model.MultiThr.
Import ListNotations.
Open Scope Z_scope.
Definition zz_eqb (a b : Z * Z) : bool := (fst a =? fst b) && (snd a =? snd b).
Definition same_set (l1 l2 : list (Z * Z)) : bool :=
  Nat.eqb (length l1) (length l2) && forallb (fun x => existsb (zz_eqb x) l2) l1
  && forallb (fun x => existsb (zz_eqb x) l1) l2.
Fixpoint list_eqb (a b : list (Z * Z)) : bool :=
  match a, b with
  | [], [] => true
  | x :: s, y :: t => zz_eqb x y && list_eqb s t
  | _, _ => false
  end.
(* a threshold is given as a probability or as an integer match weight *)
Definition thrQ (t : bool * Z * Q) : Q :=
  match t with (true, w, _) => weight_to_prob w | (false, _, p) => p end.
Definition entries (m : list (Q * list (Z * Z))) (t : Q) : list (list (Z * Z)) :=
  map snd (filter (fun e => Qeq_bool (fst e) t) m).
Definition Qabs_le (a b tol : Q) : bool := Qle_bool (a - b) tol && Qle_bool (b - a) tol.
(* lock-step: per pass of the loop over the sorted thresholds, the stable-nodes table and the
   nodes-in-play table computed by the model's CTE definitions *)
Fixpoint steps (nodes : list Z) (edges : list (Z * Z * Q)) (t : Q) (cc : list (Z * Z)) (ts : list Q)
  : list (list (Z * Z) * list Z) :=
  match ts with
  | [] => []
  | t' :: rest =>
      let cep := cluster_edge_probabilities cc (relevant_edges t edges) in
      let sn := stable_nodes cc (stable_clusters t' cep) in
      (sn, nodes_in_play nodes sn) :: steps nodes edges t' (next_cc nodes edges t t' cc) rest
  end.
Definition same_setZ (l1 l2 : list Z) : bool :=
  Nat.eqb (length l1) (length l2) && forallb (fun x => existsb (Z.eqb x) l2) l1 && forallb (fun x => existsb (Z.eqb x) l1) l2.
Fixpoint steps_eqb (a b : list (list (Z * Z) * list Z)) : bool :=
  match a, b with
  | [], [] => true
  | (s1, n1) :: a', (s2, n2) :: b' => same_set s1 s2 && same_setZ n1 n2 && steps_eqb a' b'
  | _, _ => false
  end.
Definition check_trace (nodes : list Z) (edges : list (Z * Z * Q)) (ts : list Q)
                       (tr : option (list (list (Z * Z) * list Z))) : bool :=
  match tr with
  | None => true
  | Some tr =>
      match sortQ ts with
      | [] => false
      | t0 :: rest => steps_eqb (steps nodes edges t0 (cluster_spec nodes edges t0) rest) tr
      end
  end.
(* detailed output: for every distinct requested threshold the implementation's column (in
   node-table order) equals the spec labelling and every model entry for that threshold *)
Definition TR := option (list (list (Z * Z) * list Z)).
Definition DC := (list Z * list (Z * Z * option Q) * list (bool * Z * Q) * list ((bool * Z * Q) * list (Z * Z)) * TR)%type.
Definition run_detail (c : DC) : bool :=
  match c with (nodes, edges, ts, cols, tr) =>
    let m := multi_n nodes edges (map thrQ ts) in
    Nat.eqb (length m) (length ts) &&
    forallb (fun tc =>
      let t := thrQ (fst tc) in
      list_eqb (snd tc) (comp_labels nodes (thr_edges_n (Some t) edges)) &&
      negb (Nat.eqb (length (entries m t)) 0) &&
      forallb (fun cc => same_set cc (snd tc)) (entries m t)) cols &&
    forallb (fun t => existsb (fun tc => Qeq_bool (thrQ (fst tc)) (thrQ t)) cols) ts &&
    check_trace nodes (non_null edges) (map thrQ ts) tr
  end.
(* summary statistics: (threshold, num_clusters, max_cluster_size, avg_cluster_size) rows *)
Definition SC := (list Z * list (Z * Z * option Q) * list (bool * Z * Q) * list ((bool * Z * Q) * (nat * nat * Q)) * TR)%type.
Definition run_stats (c : SC) : bool :=
  match c with (nodes, edges, ts, rows, tr) =>
    let m := multi_n nodes edges (map thrQ ts) in
    forallb (fun tr =>
      let t := thrQ (fst tr) in
      negb (Nat.eqb (length (entries m t)) 0) &&
      forallb (fun cc =>
        match cluster_stats cc, snd tr with
        | (n, mx, avg), (n', mx', avg') => Nat.eqb n n' && Nat.eqb mx mx' && Qabs_le avg avg' (Qmake 1 1000000000)
        end) (entries m t)) rows &&
    forallb (fun t => existsb (fun tr => Qeq_bool (thrQ (fst tr)) (thrQ t)) rows) ts &&
    check_trace nodes (non_null edges) (map thrQ ts) tr
  end.
Definition mkD (c : DC) : DC + SC := inl c.
Definition mkS (c : SC) : DC + SC := inr c.
Definition run_any (c : DC + SC) : bool := match c with inl a => run_detail a | inr b => run_stats b end.
"""


single_threshold_prob = X5.single_threshold_prob
effective_threshold = X5.effective_threshold


def thr_values(case):
    """Exact rational value of every requested threshold, in request order.
    "p": k/1024; "w": integer weight, exactly 2^w/(1+2^w) (never within rounding of a dyadic edge);
    "wf": any weight; the value is what the engine compares against when handed the probability the
    implementation's single-threshold conversion computes (edges may sit exactly on it)."""
    kind, vals = case["thresholds"]
    if kind == "p":
        return [Fraction(k, 1024) for k in vals]
    if kind == "w":
        return [Fraction(2) ** int(w) / (1 + Fraction(2) ** int(w)) for w in vals]
    out = []
    for w in vals:
        t = effective_threshold(case["backend"], single_threshold_prob(w))
        if t is None:
            raise ValueError(f"engine comparison around the threshold of weight {w} is not monotone")
        out.append(t)
    return out


def distinct_sorted(case):
    """(exact value, request item) for the distinct thresholds, ascending."""
    kind, vals = case["thresholds"]
    seen = {}
    for v, item in zip(thr_values(case), vals):
        seen.setdefault(v, item)
    return sorted(seen.items())


CAPTURE = ("__splink__stable_nodes_at_new_threshold", "__splink__nodes_in_play")


def _frames(case):
    kind = "int" if case["idkind"] == "int" else "str"
    nodes = pd.DataFrame({"uid": X5._col([X5.key_of(x) for x in case["nodes"]], kind)})
    edges = pd.DataFrame({
        "uid_l": X5._col([X5.key_of(e[0]) for e in case["edges"]], kind),
        "uid_r": X5._col([X5.key_of(e[1]) for e in case["edges"]], kind),
        "match_probability": X5.prob_series([e[2] for e in case["edges"]]),
    })
    return nodes, edges


def call_on(api, case, capture=False):
    """One call of the real routine on the given (possibly already used) db_api.
    case["sdf"]: hand the inputs over as SplinkDataFrames registered once per distinct graph on this
    api (re-used by later calls with the same graph) instead of raw pandas frames."""
    from splink.internals.clustering import cluster_pairwise_predictions_at_multiple_thresholds as cpm
    nodes, edges = _frames(case)
    if case.get("sdf"):
        store = api.__dict__.setdefault("_verif_tables", {})
        key = repr((case["idkind"], [X5.key_of(x) for x in case["nodes"]],
                    [(X5.key_of(l), X5.key_of(r), k) for l, r, k in case["edges"]]))
        if key not in store:
            n = len(store)
            store[key] = (api.register_table(nodes, f"verif_c11_nodes_{n}"), api.register_table(edges, f"verif_c11_edges_{n}"))
        nodes, edges = store[key]
    cap = []
    api.__dict__.pop("sql_pipeline_to_splink_dataframe", None)
    G.install(api, len(case["nodes"]))          # pass bound |V|^2+1 for every clustering inside this call
    plain = api.sql_pipeline_to_splink_dataframe
    if capture:
        def wrap(pipeline, use_cache=True):
            sdf = plain(pipeline, use_cache)
            if sdf.templated_name in CAPTURE:
                cap.append((sdf.templated_name, sdf.as_record_dict()))
            return sdf

        api.sql_pipeline_to_splink_dataframe = wrap
    try:
        tk, vals = case["thresholds"]
        kw = {"match_probability_thresholds": [k / 1024 for k in vals]} if tk == "p" else \
            {"match_weight_thresholds": list(vals)}
        with G.time_limit(120 + 0.5 * len(case["nodes"]), "multi-threshold clustering"):
            out = cpm(nodes, edges, api, "uid", output_cluster_summary_stats=bool(case.get("stats")), **kw)
            recs = out.as_record_dict()
    finally:
        api.__dict__.pop("sql_pipeline_to_splink_dataframe", None)
    return recs, cap


def run_impl(case, capture=False):
    """Fresh db_api; the calls listed in case["prior"] are made first on the same api (their results
    are not inspected here), then the call described by the case itself."""
    api = su.make_api(case["backend"])
    for prior in case.get("prior") or []:
        call_on(api, prior)
    recs, cap = call_on(api, case, capture)
    return (recs, cap) if capture else recs


def canonical_steps(case, cap):
    """[(stable nodes rows, nodes in play)] per pass, on ranks."""
    rk = X5.rank_map(case)
    steps, cur = [], None
    for name, recs in cap:
        if name == CAPTURE[0]:
            cur = [(rk[r["uid"]], rk[r["cluster_id"]]) for r in recs]
        else:
            steps.append((cur, [rk[r["uid"]] for r in recs]))
            cur = None
    return steps


def oracle(case, value):
    c5 = dict(case)
    c5["thr"] = None
    rk = X5.rank_map(case)
    n = len(rk)
    parent = list(range(n))

    def find(x):
        while parent[x] != x:
            parent[x] = parent[parent[x]]
            x = parent[x]
        return x

    for l, r, k in case["edges"]:
        if X5.qualifies(k, value):
            a, b = find(rk[X5.key_of(l)]), find(rk[X5.key_of(r)])
            if a != b:
                parent[max(a, b)] = min(a, b)
    return {v: find(v) for v in range(n)}


def _fmt6(x: float) -> str:
    t = f"{x:.6f}".rstrip("0")
    if t.endswith("."):
        t = t[:-1]
    return t.replace(".", "_")


def column_name(kind, item) -> str:
    """Name of the detailed-output column for a requested threshold: cluster_p_<probability> (0_0 and
    1_0 for 0 and 1) or cluster_mw_<weight as requested> (minus_ for a negative sign), six decimals at
    most, trailing zeros dropped, '.' written '_'."""
    if kind == "p":
        if item == 0:
            return "cluster_0_0"
        if item == 1024:
            return "cluster_1_0"
        return "cluster_p_" + _fmt6(item / 1024)
    w = float(item)
    body = _fmt6(abs(w))
    return "cluster_mw_" + ("minus_" if w < 0 and body != "0" else "") + body


def canonical_detail(case, recs):
    """-> ([(request item, [(rank, cluster rank) in node order])], None) or (None, reason).
    Every requested threshold is read from the column that carries its name (not by position)."""
    rk = X5.rank_map(case)
    ds = distinct_sorted(case)
    kind = case["thresholds"][0]
    if not recs:
        return None, "no rows returned"
    cols = list(recs[0].keys())
    want = [column_name(kind, item) for _, item in ds]
    if len(set(want)) != len(want):
        raise ValueError(f"two requested thresholds share a column name: {want}")
    if cols[0] != "uid" or sorted(cols[1:]) != sorted(want):
        return None, f"columns {cols} are not uid + {want}"
    by_node = {}
    for r in recs:
        if r["uid"] not in rk:
            return None, f"row for unknown node {r['uid']!r}"
        if r["uid"] in by_node:
            return None, f"node {r['uid']!r} appears more than once"
        by_node[r["uid"]] = r
    for x in case["nodes"]:
        if X5.key_of(x) not in by_node:
            return None, f"node {X5.key_of(x)!r} missing from the output"
    res = []
    for (val, item), col in zip(ds, want):
        column = []
        for x in case["nodes"]:
            cid = by_node[X5.key_of(x)][col]
            if cid not in rk:
                return None, f"cluster id {cid!r} in column {col} is not a node id"
            column.append((rk[X5.key_of(x)], rk[cid]))
        res.append((item, column))
    return res, None


def canonical_stats(case, recs):
    ds = distinct_sorted(case)
    if len(recs) != len(ds):
        return None, f"{len(recs)} summary rows for {len(ds)} distinct thresholds"
    rows = sorted(recs, key=lambda r: r["threshold_match_probability"])
    res = []
    for (val, item), r in zip(ds, rows):
        if abs(float(r["threshold_match_probability"]) - float(val)) > 1e-6:
            return None, f"summary row threshold {r['threshold_match_probability']} does not match requested {float(val)}"
        try:
            res.append((item, (int(r["num_clusters"]), int(r["max_cluster_size"]), Fraction(float(r["avg_cluster_size"])))))
        except (TypeError, ValueError):
            return None, f"summary row with missing values: {r}"
    return res, None


def _thr_term(kind, item, backend=None):
    if kind == "p":
        return f"(false, 0, {coq_Q(Fraction(item, 1024))})"
    if kind == "wf":
        return f"(false, 0, {coq_Q(effective_threshold(backend, single_threshold_prob(item)))})"
    return f"(true, {coq_Z(int(item))}, 0%Q)"


def coq_term(case, canon, steps=None):
    nodes, edges, _ = X5.coq_inputs(dict(case, thr=None))
    kind, vals = case["thresholds"]
    ts = coq_list([_thr_term(kind, v, case['backend']) for v in vals], "(bool * Z * Q)")
    if steps is None:
        tr = "None"
    else:
        tr = "(Some " + coq_list(
            [f"({coq_list([f'({coq_Z(a)}, {coq_Z(b)})' for a, b in sn], '(Z * Z)')}, {coq_list([coq_Z(v) for v in nip], 'Z')})"
             for sn, nip in steps], "(list (Z * Z) * list Z)") + ")"
    if case.get("stats"):
        rows = coq_list([f"({_thr_term(kind, item, case['backend'])}, ({int(n)}%nat, {int(mx)}%nat, {coq_Q(avg)}))"
                         for item, (n, mx, avg) in canon])
        return f"(mkS ({nodes}, {edges}, {ts}, {rows}, {tr}))"
    cols = coq_list([f"({_thr_term(kind, item, case['backend'])}, {coq_list([f'({coq_Z(a)}, {coq_Z(b)})' for a, b in col], '(Z * Z)')})"
                     for item, col in canon])
    return f"(mkD ({nodes}, {edges}, {ts}, {cols}, {tr}))"


def property_holds(case):
    """Property oracle directly on the implementation: every requested threshold's column is the
    component-minimum labelling at that threshold; stats are those of that partition."""
    try:
        recs = run_impl(case)
    except Exception as e:  # noqa: BLE001
        return False, {"error": repr(e)[:600]}
    ds = distinct_sorted(case)
    if case.get("stats"):
        canon, why = canonical_stats(case, recs)
        if canon is None:
            return False, {"rows": recs[:20], "why": why}
        bad = []
        for (val, item), (_, (n, mx, avg)) in zip(ds, canon):
            spec = oracle(case, val)
            sizes = {}
            for v, c in spec.items():
                sizes[c] = sizes.get(c, 0) + 1
            exp = (len(sizes), max(sizes.values()), Fraction(len(spec), len(sizes)))
            if (n, mx) != exp[:2] or abs(avg - exp[2]) > Fraction(1, 10**9):
                bad.append({"threshold": str(val), "implementation": [n, mx, float(avg)], "specification": [exp[0], exp[1], float(exp[2])]})
        return not bad, {"summary_mismatch": bad[:5]}
    canon, why = canonical_detail(case, recs)
    if canon is None:
        return False, {"rows": recs[:20], "why": why}
    bad = []
    for (val, item), (_, col) in zip(ds, canon):
        spec = oracle(case, val)
        mism = [(v, c, spec[v]) for v, c in col if spec[v] != c]
        if mism:
            bad.append({"threshold": str(val), "mismatch(rank,impl,spec)": mism[:8]})
    return not bad, {"column_mismatch": bad[:5]}


def single_vs_multi(case, recs=None):
    """Property oracle directly on the implementation, weight form: the multi-threshold column (or
    summary row) of weight w equals cluster_pairwise_predictions_at_threshold(threshold_match_weight=w)
    on the same inputs and backend.  -> (ok, info)"""
    kind, vals = case["thresholds"]
    assert kind in ("w", "wf")
    try:
        recs = run_impl(case) if recs is None else recs
    except Exception as e:  # noqa: BLE001
        return False, {"error": repr(e)[:600]}
    canon, why = (canonical_stats if case.get("stats") else canonical_detail)(case, recs)
    if canon is None:
        return False, {"rows": recs[:20], "why": why}
    bad = []
    for item, got in canon:
        c5 = {k: case[k] for k in ("backend", "idkind", "nodes", "edges")}
        c5.update(entry="standalone", thr=["wf", float(item)], family=case.get("family", ""))
        try:
            rows, _ = X5.run_impl(c5)
        except Exception as e:  # noqa: BLE001
            return False, {"error": "single-threshold run raised: " + repr(e)[:400]}
        single, why = X5.canonical_output(c5, rows)
        if single is None:
            return False, {"why": "single-threshold output: " + why}
        if case.get("stats"):
            sizes = {}
            for _, c in single:
                sizes[c] = sizes.get(c, 0) + 1
            exp = (len(sizes), max(sizes.values()), Fraction(len(single), len(sizes)))
            n, mx, avg = got
            if (n, mx) != exp[:2] or abs(avg - exp[2]) > Fraction(1, 10**9):
                bad.append({"match_weight": item, "multi_threshold_summary": [n, mx, float(avg)],
                            "independent_single_threshold": [exp[0], exp[1], float(exp[2])]})
        elif list(got) != list(single):
            diff = [(a[0], a[1], b[1]) for a, b in zip(got, single) if a != b]
            bad.append({"match_weight": item, "mismatch(rank, multi, single)": diff[:8]})
    return not bad, {"multi_vs_independent_single_threshold": bad[:5]}


def shrink(case, budget=120, holds=None):
    cur = dict(case)
    runs = 0

    holds = holds or property_holds

    def fails(c):
        nonlocal runs
        runs += 1
        return not holds(c)[0]

    changed = True
    while changed and runs < budget:
        changed = False
        kind, vals = cur["thresholds"]
        i = 0
        while len(vals) > 1 and i < len(vals) and runs < budget:
            c2 = dict(cur, thresholds=[kind, vals[:i] + vals[i + 1:]])
            if fails(c2):
                cur, vals, changed = c2, c2["thresholds"][1], True
            else:
                i += 1
        i = 0
        while i < len(cur["edges"]) and runs < budget:
            c2 = dict(cur, edges=cur["edges"][:i] + cur["edges"][i + 1:])
            if fails(c2):
                cur, changed = c2, True
            else:
                i += 1
        used = {X5.key_of(e[0]) for e in cur["edges"]} | {X5.key_of(e[1]) for e in cur["edges"]}
        i = 0
        while i < len(cur["nodes"]) and runs < budget:
            if X5.key_of(cur["nodes"][i]) in used or len(cur["nodes"]) <= 1:
                i += 1
                continue
            c2 = dict(cur, nodes=cur["nodes"][:i] + cur["nodes"][i + 1:])
            if fails(c2):
                cur, changed = c2, True
            else:
                i += 1
    return cur


def features_of(case):
    kind, vals = case["thresholds"]
    return {"backend": case["backend"], "threshold_kind": kind, "stats": bool(case.get("stats")),
            "negative_match_weight_detailed": bool(kind in ("w", "wf") and not case.get("stats") and any(float(w) < 0 for w in vals)),
            "n_thresholds": len(vals), "n_nodes": len(case["nodes"]),
            "null_probability_edges": any(e[2] is None for e in case["edges"]),
            "earlier_calls_on_same_db_api": len(case.get("prior") or []), "splinkdataframe_inputs": bool(case.get("sdf"))}


# ----------------------------------------------------------------------------------------
PROBS = [0, 128, 256, 384, 512, 640, 768, 896, 1024]


def gen_thresholds(rng, allow_negative_weights):
    if rng.random() < 0.3:
        pool = list(range(0, 5)) if not allow_negative_weights else list(range(-4, 5))
        n = rng.randint(1, min(6, len(pool)))
        ws = [rng.choice(pool) for _ in range(n)] if rng.random() < 0.25 else rng.sample(pool, n)
        return ["w", ws]
    n = rng.randint(1, 6)
    pool = PROBS + [rng.randrange(0, 1025) for _ in range(3)]
    ks = [rng.choice(pool) for _ in range(n)]
    if rng.random() < 0.5:
        ks = list(dict.fromkeys(ks))
    return ["p", ks]


def build_case(rng, fam, n, backend, idkind, stats):
    c = X5.build_case(rng, fam, n, "standalone", backend, idkind, None, thr=None, cut_rate=1.0, noise=True)
    for e in c["edges"]:
        e[2] = rng.choice(PROBS)
    c["thresholds"] = gen_thresholds(rng, allow_negative_weights=True)  # alias defect fixed in /repo (c4e4ddd2)
    c["stats"] = stats
    del c["thr"]
    return c


def build_wf_case(rng, fam, n, backend, idkind, stats):
    """Weight-form thresholds with fractional weights; bridging edges sit exactly on (and one ulp
    either side of) the probability the single-threshold conversion computes for each weight."""
    import math
    c = X5.build_case(rng, fam, n, "standalone", backend, idkind, None, thr=None, cut_rate=1.0, noise=True)
    k = rng.randint(1, 4)
    ws = []
    while len(ws) < k:
        w = round(rng.uniform(-6, 11), rng.choice([1, 2, 2, 3]))
        if all(abs(w - v) > 0.01 for v in ws):
            ws.append(int(w) if w == int(w) and rng.random() < 0.5 else w)
    ps = [single_threshold_prob(w) for w in ws]
    pool = []
    for p in ps:
        pool += [p, p, p, math.nextafter(p, 0.0), math.nextafter(p, 1.0)]
    pool += [0, 256, 768, 1024]
    for e in c["edges"]:
        e[2] = rng.choice(pool)
    if rng.random() < 0.3:
        ws = ws + [rng.choice(ws)]
    rng.shuffle(ws)
    c["thresholds"] = ["wf", ws]
    c["stats"] = stats
    del c["thr"]
    return c


def gen_sequence(rng, backend, kind, sdf):
    """2-3 calls to be made on ONE db_api."""
    idkind = rng.choice(["int", "str"])

    def graph():
        fam = rng.choice(["cliques_bridges", "forest_small", "random_sparse", "path_random", "star", "cycle"])
        c = X5.build_case(rng, fam, rng.choice([4, 6, 9]), "standalone", backend, idkind, None, thr=None, cut_rate=1.0, noise=True)
        for e in c["edges"]:
            e[2] = rng.choice(PROBS)
        del c["thr"]
        return c

    def thresholds():
        return gen_thresholds(rng, allow_negative_weights=True)

    n = rng.choice([2, 3])
    g0, t0, st0 = graph(), thresholds(), rng.random() < 0.3
    seq = []
    for i in range(n):
        if kind == "graphs":          # different graphs, identical thresholds / form / output mode
            g, t, st = (g0 if i == 0 else graph()), t0, st0
        elif kind == "thresholds":    # same graph, different thresholds
            g, t, st = g0, (t0 if i == 0 else thresholds()), st0
        elif kind == "modes":         # same graph and thresholds, output mode alternates
            g, t, st = g0, t0, (st0 if i % 2 == 0 else not st0)
        else:                          # mixed
            g = g0 if rng.random() < 0.5 else graph()
            t = t0 if rng.random() < 0.6 else thresholds()
            st = rng.random() < 0.4
        c = dict(g, thresholds=[t[0], list(t[1])], stats=st, sdf=sdf, family="seq_" + kind)
        seq.append(c)
    return seq


def build_null_case(rng, fam, n, backend, idkind, stats):
    """Threshold lists that contain 0 and edge rows with a NULL match_probability (bridging ones
    included): a cluster held together only by a NULL edge must not exist at any threshold."""
    c = X5.build_case(rng, fam, n, "standalone", backend, idkind, None, thr=None, cut_rate=1.0, noise=True)
    hit = False
    for e in c["edges"]:
        e[2] = rng.choice(PROBS)
        if rng.random() < 0.35:
            e[2] = None
            hit = True
    if c["edges"] and not hit:
        rng.choice(c["edges"])[2] = None
    ks = [0] + [rng.choice(PROBS[1:]) for _ in range(rng.randint(0, 3))]
    ks = list(dict.fromkeys(ks))
    rng.shuffle(ks)
    c["thresholds"] = ["p", ks]
    c["stats"] = stats
    c["family"] = "null_" + fam
    del c["thr"]
    return c


def grid_case(rng, n, probs_per_pair, thresholds, backend, stats=False):
    """Graph on n labelled nodes where pair i has probability probs_per_pair[i] (None = absent)."""
    import itertools
    edges = []
    for (a, b), k in zip(itertools.combinations(range(n), 2), probs_per_pair):
        if k is not None:
            edges.append([a, b, k] if rng.random() < 0.5 else [b, a, k])
    nodes = list(range(n))
    rng.shuffle(nodes)
    rng.shuffle(edges)
    return {"entry": "standalone", "backend": backend, "idkind": "int", "nodes": nodes, "edges": edges,
            "family": f"grid{n}", "thresholds": thresholds, "stats": stats}
