#!/bin/bash
# MANIFEST.setup_cmd: build the Coq development from files on disk (offline).
set -e
cd "$(dirname "$0")/coq"
mkdir -p gen cases
( echo "-Q theories Splinkv"; find theories -name '*.v' | sort ) > _CoqProject
coq_makefile -f _CoqProject -o Makefile
timeout 3000 make -j12
echo "setup ok"
