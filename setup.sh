#!/bin/bash
# MANIFEST.setup_cmd: build the Coq development from files on disk (offline).
# Each check re-builds the dependency cone of its own property file and reports a broken
# build as a failed obligation, so a failure here is reported but does not abort the set-up.
cd "$(dirname "$0")/coq"
mkdir -p gen cases
( echo "-Q theories Splinkv"; find theories -name '*.v' | sort ) > _CoqProject
coq_makefile -f _CoqProject -o Makefile || exit 1
if timeout 3000 make -k -j12 > .setup_build.log 2>&1; then
  echo "setup ok: all theories built"
else
  echo "setup WARNING: some theory files failed to build (see coq/.setup_build.log):"
  grep -E "^make.*Error|^File " .setup_build.log | head -20
fi
exit 0
