#!/usr/bin/env python3
"""keep_seeded.py <src dir> <name> <caught: yes|no|after-strengthening> <note>: copy a confirmed seeded change to /verif/seeded/<name>/"""
import json, shutil, sys, os, subprocess
src, name, caught, note = sys.argv[1:5]
dst = f"/verif/seeded/{name}"
os.makedirs(dst, exist_ok=True)
for f in ("patch.diff", "demo.py"):
    shutil.copy(f"{src}/{f}", f"{dst}/{f}")
m = json.load(open(f"{src}/meta.json"))
m["confirmed_by_coordinator"] = {
    "ran": f"tools/try_seeded.sh {src} {m.get('property')}: patch applied to a scratch worktree of /repo HEAD "
           + subprocess.run("git -C /repo rev-parse --short HEAD", shell=True, capture_output=True, text=True).stdout.strip()
           + "; demo exits 0 on /repo and non-zero on the patched tree; agent's baseline run reported missing=0",
    "check_catches": caught, "note": note}
json.dump(m, open(f"{dst}/meta.json", "w"), indent=1)
print("kept", dst)
