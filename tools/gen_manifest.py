#!/usr/bin/env python3
"""Regenerate MANIFEST.json from meta/Cxx.json (claimed checks) and meta/not_applicable.json."""
import json, glob, os
V = os.path.dirname(os.path.dirname(os.path.abspath(__file__)))
checks = []
claimed = set()
ready = set(open(f"{V}/meta/READY").read().split())
for f in sorted(glob.glob(f"{V}/meta/C*.json")):
    m = json.load(open(f))
    pid = m["property_id"]
    if pid not in ready:
        continue
    claimed.add(pid)
    checks.append({
        "property_id": pid,
        "quick_cmd": f"./check {pid} --tier quick",
        "thorough_cmd": f"./check {pid} --tier thorough",
        "evidence_file": f"/verif/evidence/{pid}.json",
        "replay_cmd_template": f"./check {pid} --replay {{path}}",
        "engine": "coq-model",
        "level_claimed": {"category": "proof", "text": m["level_text"], "design_ref": m.get("design_ref", "DESIGN.md 6")},
        "level_note": m["level_note"],
        "technique": m["technique"],
    })
props = [json.loads(l)["id"] for l in open(f"{V}/properties.jsonl")]
na_reasons = json.load(open(f"{V}/meta/not_applicable.json")) if os.path.exists(f"{V}/meta/not_applicable.json") else {}
na = [{"property_id": p, "reason": na_reasons.get(p, "check not built yet in this development (no theorem+correspondence committed); not claimed")}
      for p in props if p not in claimed]

def has_translator(pid):
    """served by /verif/translators iff one of the property's harness modules imports from it"""
    import glob, re
    for f in glob.glob(f"{V}/harness/{pid.lower()}*.py"):
        if re.search(r"^\s*(from translators|import translators)", open(f).read(), flags=re.M):
            return True
    return False


man = {
    "version": 1,
    "setup_cmd": "./setup.sh",
    "hooks": {"guard": "SPLINK_VERIF", "enable": "none needed: instrumentation is done by subclassing/wrapping DatabaseAPI inside /verif/harness; checks export SPLINK_VERIF=1 for uniformity",
              "baseline_off_cmd": "python3 /verif/tools/baseline_check.py", "source_commits": [], "add_only": True},
    "engines": [
        {"name": "coq-model", "path": "/verif/coq", "serves_properties": sorted(claimed), "kind_free_text": "Rocq/Coq 8.16.1 models, proofs and property theorems; generated obligations and case files evaluated with vm_compute"},
        {"name": "translators", "path": "/verif/translators", "serves_properties": sorted(c for c in claimed if has_translator(c)), "kind_free_text": "fail-closed Python translators regenerating model fragments from /repo on every run"},
        {"name": "py-harness", "path": "/verif/harness", "serves_properties": sorted(claimed), "kind_free_text": "correspondence harness driving real Splink on DuckDB/SQLite (Spark in thorough tiers where stated)"},
    ],
    "checks": checks,
    "not_applicable": na,
    "notes": "See DESIGN.md. KNOWN_FINDINGS.json lists recorded and fixed defects.",
}
json.dump(man, open(f"{V}/MANIFEST.json", "w"), indent=1)
print("claimed", sorted(claimed), "not claimed", len(na))
