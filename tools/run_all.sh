#!/bin/bash
# tools/run_all.sh [tier] [seed] [parallel]: run every claimed check on the unchanged tree, summarise.
TIER=${1:-quick}; SEED=${2:-0}; PAR=${3:-4}
cd "$(dirname "$0")/.."
LOGD=${RUNALL_LOGS:-/var/tmp/coord/runall}; mkdir -p $LOGD
python3 -c "import json;print(' '.join(c['property_id'] for c in json.load(open('MANIFEST.json'))['checks']))" | tr ' ' '\n' | \
  xargs -P $PAR -I{} bash -c "VERIF_SEED=$SEED ./check {} --tier $TIER > $LOGD/{}.log 2>&1; echo \"{} exit=\$? \$(grep -c '^VIOLATION' $LOGD/{}.log) violations; \$(tail -1 $LOGD/{}.log | cut -c1-150)\""
python3-vt - <<'PY'
import json, jsonschema, glob
sch=json.load(open('/root/.vp/EVIDENCE.schema.json'))
for f in sorted(glob.glob('evidence/C??.json')):
    e=json.load(open(f))
    try:
        jsonschema.validate(e, sch); ok='valid'
    except Exception as x: ok='INVALID '+str(x)[:80]
    c=e['coverage']
    print(f.split('/')[-1], ok, 'obl', c.get('discharged'),'/',c.get('obligations'), 'tier',e['tier'],'seed',e['seed'],'viol',e.get('violations'))
PY
