#!/usr/bin/env python3
"""Run the repository's pinned baseline test command and compare with BASELINE.json stable_pass.
Usage: baseline_check.py [repo_dir]   (default /repo).  Exit 0 iff every stable_pass test passed."""
import json, subprocess, sys, tempfile, os, xml.etree.ElementTree as ET
repo = sys.argv[1] if len(sys.argv) > 1 else "/repo"
base = json.load(open("/root/.vp/BASELINE.json"))
out = tempfile.mktemp(suffix=".junit.xml", dir="/var/tmp")
cmd = base["cmd"].replace("cd /repo", f"cd {repo}").replace("<file>", out)
env = dict(os.environ)
env.pop("SPLINK_VERIF", None)
r = subprocess.run(cmd, shell=True, env=env, stdout=subprocess.PIPE, stderr=subprocess.STDOUT, text=True)
tail = r.stdout[-3000:]
passed = set()
for tc in ET.parse(out).getroot().iter("testcase"):
    if not any(c.tag in ("failure", "error", "skipped") for c in tc):
        passed.add(f"{tc.get('classname')}::{tc.get('name')}")
os.remove(out)
missing = [t for t in base["stable_pass"] if t not in passed]
print(tail)
print(f"stable_pass={len(base['stable_pass'])} passed_now={len(passed)} missing={len(missing)}")
for m in missing[:50]:
    print("MISSING", m)
sys.exit(1 if missing else 0)
