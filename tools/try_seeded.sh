#!/bin/bash
# tools/try_seeded.sh <dir with patch.diff + demo.py> <Cxx> [tier]
# Applies the patch to a scratch worktree of /repo HEAD, confirms the demo (passes unchanged,
# fails changed), runs ./check Cxx against the patched tree, restores evidence, cleans up.
set -u
D=$1; P=$2; TIER=${3:-quick}
WT=/var/tmp/coord/seed_$$_$P
mkdir -p /var/tmp/coord
git -C /repo worktree add --detach $WT HEAD -q || exit 2
if ! git -C $WT apply $D/patch.diff; then echo "PATCH DOES NOT APPLY"; git -C /repo worktree remove --force $WT; exit 3; fi
echo "== demo on unchanged /repo"; (cd /repo && PYTHONPATH=/repo timeout 900 /venv/bin/python $D/demo.py >/var/tmp/coord/demo_u.log 2>&1; echo "exit=$?"; tail -2 /var/tmp/coord/demo_u.log)
echo "== demo on patched tree"; (cd $WT && PYTHONPATH=$WT timeout 900 /venv/bin/python $D/demo.py >/var/tmp/coord/demo_c.log 2>&1; echo "exit=$?"; tail -2 /var/tmp/coord/demo_c.log)
cp /verif/evidence/$P.json /var/tmp/coord/ev_$P.json 2>/dev/null
echo "== ./check $P --tier $TIER on patched tree"
(cd /verif && VERIF_REPO=$WT ./check $P --tier $TIER 2>&1 | grep -E "VIOLATION|KNOWN-FINDING|done:|->" | head -12)
cp /var/tmp/coord/ev_$P.json /verif/evidence/$P.json 2>/dev/null
git -C /repo worktree remove --force $WT
