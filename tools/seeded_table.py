#!/usr/bin/env python3
"""Regenerate the table of DESIGN.md section 9.4 from seeded/*/meta.json."""
import json, glob, re
rows=[]
for f in sorted(glob.glob('/verif/seeded/*/meta.json')):
    m=json.load(open(f)); n=f.split('/')[-2]
    c=m.get("confirmed_by_coordinator",{})
    summ=re.sub(r"\s+"," ",m.get("summary",""))[:260].replace("|","/")
    needs=re.sub(r"\s+"," ",m.get("needs",""))[:200].replace("|","/")
    rows.append(f"| {n} | {summ} (needs: {needs}) | {c.get('check_catches','?')}: {c.get('note','').replace('|','/')} |")
hdr="| seed | change (what it needs to manifest) | caught by |\n|---|---|---|\n"
table=hdr+"\n".join(rows)+"\n"
p='/verif/DESIGN.md'
s=open(p).read()
a=s.index("| seed | change (what it needs to manifest) | caught by |")
b=s.index("\n\n",a) if "\n\n" in s[a:] else len(s)
s=s[:a]+table+s[b+1:] if b<len(s) else s[:a]+table
open(p,'w').write(s)
print(len(rows),"rows")
